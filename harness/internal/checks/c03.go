package checks

import (
	"encoding/json"
	"fmt"
	"sort"
	"time"

	"github.com/high-moctane/mocrelay"

	"verif/harness/internal/abs"
	"verif/harness/internal/core"
	"verif/harness/internal/tv"
)

// walkStates reaches every abstract state of the exported relation by a real
// history (breadth first, following what the real store does) and calls
// visit with a live store in that state.
func walkStates(rel *storeRel, maxCap int, mk func(cap int) storeAdapter, conc *abs.Conc,
	visit func(cap int, st storeAdapter, listing []string)) int {
	var labels []string
	for l := range rel.Universe {
		labels = append(labels, l)
	}
	sort.Strings(labels)
	real := map[string]*mocrelay.Event{}
	for _, l := range labels {
		real[l] = conc.Event(rel.Universe[l], "content of "+l)
	}
	total := 0
	for cap := 1; cap <= maxCap; cap++ {
		visited := map[string]bool{}
		queue := [][]string{{}}
		for len(queue) > 0 {
			path := queue[0]
			queue = queue[1:]
			st := mk(cap)
			for _, a := range path {
				st.Add(real[a])
			}
			evs, _ := st.Find(matchAll)
			cur := conc.Labels(evs)
			k := abs.KeyOf(cur)
			if visited[k] {
				st.Close()
				continue
			}
			visited[k] = true
			visit(cap, st, cur)
			st.Close()
			for _, a := range labels {
				queue = append(queue, append(append([]string{}, path...), a))
			}
		}
		total += len(visited)
	}
	return total
}

var findTraceSpec = tv.Spec{Module: "FindTrace", Config: "FindTrace.cfg", Timeout: 30 * time.Minute}

// filterUniverse: structured filters over the StoreMC universe.
func filterUniverse() []abs.Filter {
	ids := []abs.StrSet{{}, {P: true, S: []string{}}, {P: true, S: []string{"r1"}}, {P: true, S: []string{"r1", "p2", "x2", "k1", "y3"}}}
	authors := []abs.StrSet{{}, {P: true, S: []string{"a"}}, {P: true, S: []string{"a", "b"}}, {P: true, S: []string{"b"}}}
	kinds := []abs.IntSet{{}, {P: true, S: []int64{1}}, {P: true, S: []int64{0, 30000, 30002}}, {P: true, S: []int64{5}}, {P: true, S: []int64{}}}
	tags := []map[string][]string{{}, {"t": {"x"}}, {"e": {"r1"}}, {"d": {"x"}}, {"a": {"30000:a:x"}}, {"p": {"a"}}, {"p": {"c"}}, {"t": {"z"}}, {"d": {""}}, {"t": {"x"}, "d": {"x", "y"}}, {"e": {"r1", "p2", "k1"}}}
	times := [][2]abs.OptInt{{{}, {}}, {{P: true, V: 2}, {}}, {{}, {P: true, V: 2}}, {{P: true, V: 2}, {P: true, V: 3}}, {{P: true, V: 3}, {P: true, V: 3}}}
	limits := []abs.OptInt{{}, {P: true, V: 0}, {P: true, V: 1}, {P: true, V: 2}}
	var out []abs.Filter
	for _, i := range ids {
		for _, a := range authors {
			for _, k := range kinds {
				for _, t := range tags {
					for _, tm := range times {
						for _, l := range limits {
							out = append(out, abs.Filter{IDs: i, Authors: a, Kinds: k, Tags: t, Since: tm[0], Until: tm[1], Limit: l})
						}
					}
				}
			}
		}
	}
	return out
}

func findLine(conc *abs.Conc, st storeAdapter, listing []string, fs []abs.Filter) (map[string]any, error) {
	res, err := st.Find(conc.Filters(fs))
	if err != nil {
		return nil, err
	}
	return map[string]any{"op": "find", "S": listing, "fs": abs.NormFilters(fs), "res": conc.Labels(res),
		"shape": "find " + describeFilters(fs)}, nil
}

func validateFindTraces(run *core.Run, prelude []any, traces []tv.Trace, what string) {
	out, err := tv.Validate(findTraceSpec, prelude, traces, 6)
	if out != nil {
		run.Add("traces_validated_against_impl", int64(out.Accepted+len(out.Rejects)))
		run.Add("trace_lines", int64(out.Lines))
		run.Add("trace_tlc_states", out.TLCStates)
	}
	if err != nil {
		run.Problem("%s: find validation failed to run: %v", what, err)
		return
	}
	for _, rj := range out.Rejects {
		b, _ := json.Marshal(rj.Line)
		run.Violate(what+":"+lineShape(rj.Line),
			fmt.Sprintf("%s: the answer is not the filter specification over the listed set: %s", rj.Trace.Name, b),
			map[string]any{"prelude": prelude, "line": rj.Line, "trace": rj.Trace.Lines[:rj.LineIdx+1]})
	}
}

// findCanary: a correct find line with one event dropped from / added to the
// answer must be rejected.
func findCanary(run *core.Run, prelude []any, traces []tv.Trace) {
	for _, tr := range traces {
		for _, l := range tr.Lines {
			m, _ := l.(map[string]any)
			if m == nil || m["op"] != "find" {
				continue
			}
			res, _ := m["res"].([]string)
			if len(res) == 0 {
				continue
			}
			c := map[string]any{}
			for k, v := range m {
				c[k] = v
			}
			c["res"] = res[1:]
			rej, err := tv.Rejects(findTraceSpec, prelude, tv.Trace{Name: "canary", Lines: []any{c}})
			if err != nil {
				run.Problem("canary run failed: %v", err)
				return
			}
			if !rej {
				run.Problem("canary (answer with one event dropped) was accepted by FindTrace")
				return
			}
			run.Add("canaries_rejected", 1)
			return
		}
	}
	run.Problem("no find line with a non-empty answer to build a canary from")
}

// C03: every query equals the filter specification over the retained set.
func C03(run *core.Run) {
	maxCap := 3
	perState := 10
	if run.Thorough() {
		perState = 25
	}
	rel, ok := runStoreMC(run, maxCap)
	distinct := core.NewDistinct()
	if ok {
		run.Set("states", rel.States)
		run.Set("transitions", rel.Trans)
		conc := abs.NewConc()
		var prelude []any
		var labels []string
		for l := range rel.Universe {
			labels = append(labels, l)
		}
		sort.Strings(labels)
		for _, l := range labels {
			prelude = append(prelude, map[string]any{"op": "def", "e": rel.Universe[l]})
		}
		fu := filterUniverse()
		r := run.Rand("c03-graph")
		var traces []tv.Trace
		n := walkStates(rel, maxCap, newCache, conc, func(cap int, st storeAdapter, listing []string) {
			tr := tv.Trace{Name: fmt.Sprintf("cap%d-state[%s]", cap, abs.KeyOf(listing))}
			for i := 0; i < perState; i++ {
				fs := []abs.Filter{fu[r.Intn(len(fu))]}
				if i%3 == 2 {
					fs = append(fs, fu[r.Intn(len(fu))])
				}
				if i%9 == 4 {
					// several non-selective filters in one query, one of them limited (ordered-scan path)
					fs = []abs.Filter{{Limit: abs.OptInt{P: true, V: 1}}, {Until: abs.OptInt{P: true, V: int64(1 + r.Intn(3))}}}
					if r.Intn(2) == 0 {
						fs = []abs.Filter{{Since: abs.OptInt{P: true, V: 2}}, {Limit: abs.OptInt{P: true, V: int64(1 + r.Intn(2))}}}
					}
				}
				if i%9 == 8 {
					// equivalent pair routed differently: {limit:n} (scan) and {kinds: all kinds, limit:n} (index)
					lim := abs.OptInt{P: true, V: int64(1 + r.Intn(3))}
					fs = []abs.Filter{{Limit: lim}}
					l1, err := findLine(conc, st, listing, fs)
					if err == nil {
						tr.Lines = append(tr.Lines, l1)
					}
					fs = []abs.Filter{{Limit: lim, Kinds: abs.IntSet{P: true, S: []int64{0, 1, 3, 5, 10002, 20000, 20001, 30000, 30001, 30002}}}}
				}
				l, err := findLine(conc, st, listing, fs)
				if err != nil {
					run.Problem("find failed: %v", err)
					continue
				}
				if len(l["res"].([]string)) > 0 {
					distinct.Add(abs.KeyOf(listing) + "|" + fmt.Sprint(l["fs"]))
				}
				tr.Lines = append(tr.Lines, l)
			}
			traces = append(traces, tr)
		})
		run.Add("replayed_states", int64(n))
		validateFindTraces(run, prelude, traces, "graph")
		findCanary(run, prelude, traces)
		if len(traces) > 3 {
			run.Sample(traces[3].Lines[0])
		}
	}
	// themed random walks over the StoreMC universe (store.go): after every step each event that was
	// offered in this walk is looked up through each of its index keys; an event that is no longer
	// listed must not come back through any of them (a stale index entry is state besides the retained set)
	if ok {
		conc := abs.NewConc()
		var labels []string
		var prelude []any
		for l := range rel.Universe {
			labels = append(labels, l)
		}
		sort.Strings(labels)
		real := map[string]*mocrelay.Event{}
		for _, l := range labels {
			real[l] = conc.Event(rel.Universe[l], "content of "+l)
			prelude = append(prelude, map[string]any{"op": "def", "e": rel.Universe[l]})
		}
		related := relatedLabels(labels, rel.Universe)
		r := run.Rand("c03-walks")
		walks := 400
		if run.Thorough() {
			walks = 4000
		}
		keysOf := func(e abs.Event) [][]abs.Filter {
			out := [][]abs.Filter{{{IDs: abs.StrSet{P: true, S: []string{e.ID}}}},
				{{Authors: abs.StrSet{P: true, S: []string{e.Author}}, Kinds: abs.IntSet{P: true, S: []int64{e.Kind}}}}}
			for _, t := range e.Tags {
				if len(t.Name) == 1 && t.N >= 2 {
					out = append(out, []abs.Filter{{Tags: map[string][]string{t.Name: {t.Val}}}})
				}
			}
			return out
		}
		var traces []tv.Trace
		for w := 0; w < walks && run.Violations() < 8; w++ {
			cap := 1 + r.Intn(maxCap)
			st := newCache(cap)
			pool := themedPool(r, labels, related)
			offered := map[string]bool{}
			var hist []string
			tr := tv.Trace{Name: fmt.Sprintf("walk%d-cap%d", w, cap)}
			for step := 0; step < 14; step++ {
				a := pool[r.Intn(len(pool))]
				st.Add(real[a])
				offered[a] = true
				hist = append(hist, a)
				evs, err := st.Find(matchAll)
				if err != nil {
					break
				}
				listing := conc.Labels(evs)
				in := map[string]bool{}
				for _, l := range listing {
					in[l] = true
				}
				for l := range offered {
					for _, fs := range keysOf(rel.Universe[l]) {
						line, err := findLine(conc, st, listing, fs)
						if err != nil {
							continue
						}
						run.Add("index_key_probes", 1)
						for _, got := range line["res"].([]string) {
							if !in[got] {
								run.Violate("walk:find returns an event that is not listed "+describeFilters(fs),
									fmt.Sprintf("cap=%d history=%v: Find(%v) returns %s, which Find([{}]) = %v does not list", cap, hist, fs, got, listing),
									map[string]any{"cap": cap, "history": hist, "fs": fs, "events": rel.Universe})
							}
						}
						if w%8 == 0 {
							tr.Lines = append(tr.Lines, line)
						}
					}
				}
			}
			st.Close()
			if len(tr.Lines) > 0 {
				traces = append(traces, tr)
			}
		}
		validateFindTraces(run, prelude, traces, "walk")
	}
	// random histories: queries after replacement, deletion and eviction happened
	nt, steps := 40, 60
	if run.Thorough() {
		nt, steps = 150, 90
	}
	r := run.Rand("c03-hist")
	var traces []tv.Trace
	for t := 0; t < nt; t++ {
		conc := abs.NewConc()
		g := NewGen(r, fmt.Sprintf("h%d_", t))
		g.Extreme = t%3 == 1
		cap := 1 + r.Intn(12)
		var st storeAdapter
		if t%4 == 3 {
			st = newCacheHandler(cap)
		} else {
			st = newCache(cap)
		}
		tr := tv.Trace{Name: fmt.Sprintf("hist-%d-cap%d", t, cap)}
		defined := map[string]bool{}
		n := steps/2 + r.Intn(steps)
		for i := 0; i < n; i++ {
			e := g.Offer()
			if !defined[e.ID] {
				defined[e.ID] = true
				tr.Lines = append(tr.Lines, map[string]any{"op": "def", "e": e})
			}
			st.Add(conc.Event(e, "c"))
			if r.Intn(3) != 0 {
				continue
			}
			evs, err := st.Find(matchAll)
			if err != nil {
				run.Problem("listing failed: %v", err)
				break
			}
			listing := conc.Labels(evs)
			for j := 0; j < 3; j++ {
				fs := g.Filters()
				l, err := findLine(conc, st, listing, fs)
				if err != nil {
					run.Problem("find failed: %v", err)
					break
				}
				if len(l["res"].([]string)) > 0 {
					distinct.Add(tr.Name + fmt.Sprint(i, j))
				}
				tr.Lines = append(tr.Lines, l)
			}
		}
		st.Close()
		traces = append(traces, tr)
	}
	validateFindTraces(run, nil, traces, "history")
	run.Set("rule", "the retained set S is what Find([{}]) lists; each recorded Find(fs) is judged by TLC with AnswerOK(res, S, fs) of module Nostr (limit newest per filter, ties open, merged without duplicates, newest first). Cases: every reachable state of StoreMC (reached by a real history) x sampled filter lists from a 28,800-filter structured universe incl. scan/index-equivalent pairs; plus seeded random histories with random filter lists after replacement, deletion and eviction. distinct_nontrivial = distinct (state, filter list) pairs queried whose answer is non-empty")
	run.Set("evaluations", run.Get("trace_lines"))
	run.Set("distinct_nontrivial", distinct.Len())
	run.Assume = append(run.Assume, "which of several events with equal created_at at a limit boundary is returned is left open",
		"filters are produced by decoding JSON, so only shapes reachable through the wire occur")
}
