package checks

import (
	"context"
	"encoding/json"
	"fmt"
	"math/rand"
	"net/http/httptest"
	"strings"
	"sync"
	"time"

	"github.com/coder/websocket"
	"github.com/high-moctane/mocrelay"
	mocsqlite "github.com/high-moctane/mocrelay/handler/sqlite"
	mocprom "github.com/high-moctane/mocrelay/middleware/prometheus"
	"github.com/prometheus/client_golang/prometheus"

	"verif/harness/internal/abs"
	"verif/harness/internal/core"
	"verif/harness/internal/tv"
)

var relayTraceSpec = tv.Spec{Module: "RelayTrace", Config: "RelayTrace.cfg", Timeout: 30 * time.Minute}

func emsg(k string) map[string]any {
	return map[string]any{"k": k, "sub": "", "id": "", "acc": false, "dup": false, "fs": []abs.Filter{}, "ev": dummyEv}
}

type e2eConn struct {
	id   int
	ws   *websocket.Conn
	ctx  context.Context
	rec  *rrec
	conc *abs.Conc
	evOf func(string) (abs.Event, bool)
	mu   sync.Mutex
	eose map[string]int
	oks  map[string]int
	got  map[string]bool
}

func (c *e2eConn) reader(done chan struct{}) {
	defer close(done)
	for {
		typ, b, err := c.ws.Read(c.ctx)
		if err != nil {
			return
		}
		a := emsg("OTHER")
		if typ == websocket.MessageText {
			if m, err := decodeServer(b); err == nil {
				switch m := m.(type) {
				case *mocrelay.ServerEOSEMsg:
					a = emsg("EOSE")
					a["sub"] = m.SubscriptionID
				case *mocrelay.ServerOKMsg:
					a = emsg("OK")
					a["id"] = c.conc.Label(m.EventID)
					a["acc"] = m.Accepted
					a["dup"] = m.MsgPrefix == mocrelay.MachineReadablePrefixDuplicate
				case *mocrelay.ServerEventMsg:
					a = emsg("SEVENT")
					a["sub"] = m.SubscriptionID
					l := c.conc.Label(m.Event.ID)
					a["id"] = l
					if e, ok := c.evOf(l); ok && abs.TS(e.TS) == m.Event.CreatedAt && e.Kind == m.Event.Kind {
						if ok2, err := m.Event.Verify(); ok2 && err == nil {
							a["ev"] = e
						} else {
							a["ev"] = abs.Event{ID: "?not-authentic"}
						}
					} else {
						a["ev"] = abs.Event{ID: "?changed"}
					}
				case *mocrelay.ServerNoticeMsg:
					a = emsg("NOTICE")
				case *mocrelay.ServerCountMsg:
					a = emsg("SCOUNT")
					a["sub"] = m.SubscriptionID
				case *mocrelay.ServerClosedMsg:
					a = emsg("CLOSED")
					a["sub"] = m.SubscriptionID
				}
			}
		}
		c.rec.log("got", c.id, a)
		c.mu.Lock()
		switch a["k"] {
		case "EOSE":
			c.eose[a["sub"].(string)]++
		case "OK":
			c.oks[a["id"].(string)]++
		case "SEVENT":
			c.got[a["sub"].(string)+"|"+a["id"].(string)] = true
		}
		c.mu.Unlock()
	}
}

func (c *e2eConn) wait(cond func() bool, d time.Duration) bool {
	dl := time.Now().Add(d)
	for time.Now().Before(dl) {
		c.mu.Lock()
		ok := cond()
		c.mu.Unlock()
		if ok {
			return true
		}
		time.Sleep(50 * time.Microsecond)
	}
	return false
}

func (c *e2eConn) write(a map[string]any, v any) bool {
	b, _ := json.Marshal(v)
	c.rec.log("snd", c.id, a)
	return c.ws.Write(c.ctx, websocket.MessageText, b) == nil
}

// runE2EScenario: K WebSocket clients against the composition cmd/mocrelay runs.
func runE2EScenario(seed int64) (tv.Trace, string) {
	r := rand.New(rand.NewSource(seed))
	conc := abs.NewConc()
	rec := &rrec{}
	st, err := openMemSQL()
	if err != nil {
		return tv.Trace{}, "sqlite: " + err.Error()
	}
	sctx, scancel := context.WithCancel(context.Background())
	defer func() { scancel(); time.Sleep(5 * time.Millisecond); st.Close() }()
	bulk := []int{1, 3, 1000}[r.Intn(3)]
	sqlh, err := mocsqlite.NewSQLiteHandler(sctx, st.db, &mocsqlite.SQLiteHandlerOption{EventBulkInsertNum: bulk, EventBulkInsertDur: 5 * time.Millisecond, MaxLimit: mocsqlite.NoLimit})
	if err != nil {
		return tv.Trace{}, "sqlite handler: " + err.Error()
	}
	h := mocrelay.NewMergeHandler(mocrelay.NewCacheHandler(100), mocrelay.NewRouterHandler(100), sqlh)
	h = mocrelay.Middleware(mocprom.NewPrometheusMiddleware(prometheus.NewRegistry()))(h)
	opt := mocrelay.NewDefaultRelayOption()
	opt.RecvRateLimitRate = 1e9
	opt.RecvRateLimitBurst = 1 << 30
	relay := mocrelay.NewRelay(h, opt)
	srv := httptest.NewServer(&mocrelay.ServeMux{Relay: relay})
	defer srv.Close()
	ctx, cancel := context.WithTimeout(context.Background(), 30*time.Second)
	defer cancel()
	var evMu sync.Mutex
	evs := map[string]abs.Event{}
	evOf := func(l string) (abs.Event, bool) { evMu.Lock(); defer evMu.Unlock(); e, ok := evs[l]; return e, ok }
	K := 2 + r.Intn(3)
	var conns []*e2eConn
	var dones []chan struct{}
	for i := 1; i <= K; i++ {
		ws, _, err := websocket.Dial(ctx, "ws"+strings.TrimPrefix(srv.URL, "http"), nil)
		if err != nil {
			return tv.Trace{}, "dial: " + err.Error()
		}
		ws.SetReadLimit(1 << 22)
		c := &e2eConn{id: i, ws: ws, ctx: ctx, rec: rec, conc: conc, evOf: evOf, eose: map[string]int{}, oks: map[string]int{}, got: map[string]bool{}}
		conns = append(conns, c)
		d := make(chan struct{})
		dones = append(dones, d)
		go c.reader(d)
	}
	defer func() {
		for _, c := range conns {
			c.ws.CloseNow()
		}
	}()
	filterChoices := [][]abs.Filter{
		{{}},
		{{Kinds: abs.IntSet{P: true, S: []int64{1}}}},
		{{Authors: abs.StrSet{P: true, S: []string{"a"}}}, {Kinds: abs.IntSet{P: true, S: []int64{2}}}},
		{{Limit: abs.OptInt{P: true, V: 2}}},
		{{Since: abs.OptInt{P: true, V: 3}, Kinds: abs.IntSet{P: true, S: []int64{1, 2}}}},
		{{Tags: map[string][]string{"t": {"x"}}}},
	}
	problem := ""
	var pmu sync.Mutex
	setProblem := func(s string) {
		pmu.Lock()
		if problem == "" {
			problem = s
		}
		pmu.Unlock()
	}
	var wg sync.WaitGroup
	var counter int
	var published []abs.Event
	for _, c := range conns {
		wg.Add(1)
		go func(c *e2eConn, rr *rand.Rand) {
			defer wg.Done()
			nreq := map[string]int{}
			steps := 4 + rr.Intn(7)
			for i := 0; i < steps; i++ {
				if rr.Intn(3) == 0 {
					time.Sleep(time.Duration(rr.Intn(300)) * time.Microsecond)
				}
				switch k := rr.Intn(10); {
				case k < 5:
					evMu.Lock()
					var e abs.Event
					resend := len(published) > 0 && rr.Intn(6) == 0
					if resend {
						e = published[rr.Intn(len(published))]
					} else {
						counter++
						e = abs.Event{ID: fmt.Sprintf("w%d", counter), Author: []string{"a", "b"}[rr.Intn(2)], Kind: int64(1 + rr.Intn(2)), TS: int64(1 + rr.Intn(5))}
						if rr.Intn(3) == 0 {
							e.Tags = []abs.Tag{{Name: "t", Val: "x", N: 2}}
						}
						evs[e.ID] = e
					}
					evMu.Unlock()
					ce := conc.SignedEvent(e, "content of "+e.ID)
					a := emsg("EVENT")
					a["id"] = e.ID
					a["ev"] = e
					before := 0
					c.mu.Lock()
					before = c.oks[e.ID]
					c.mu.Unlock()
					if !c.write(a, &mocrelay.ClientEventMsg{Event: ce}) {
						return
					}
					if !c.wait(func() bool { return c.oks[e.ID] > before }, 5*time.Second) {
						setProblem(fmt.Sprintf("connection %d: EVENT %s not answered by OK within 5s", c.id, e.ID))
						return
					}
					if !resend {
						evMu.Lock()
						published = append(published, e)
						evMu.Unlock()
					}
				case k < 9:
					s := fmt.Sprintf("s%d", rr.Intn(2))
					fs := filterChoices[rr.Intn(len(filterChoices))]
					a := emsg("REQ")
					a["sub"] = s
					a["fs"] = abs.NormFilters(fs)
					if !c.write(a, &mocrelay.ClientReqMsg{SubscriptionID: s, ReqFilters: conc.Filters(fs)}) {
						return
					}
					nreq[s]++
					n := nreq[s]
					// the id is re-issued only after its EOSE arrived (C08's premise)
					if !c.wait(func() bool { return c.eose[s] >= n }, 5*time.Second) {
						setProblem(fmt.Sprintf("connection %d: REQ %s not answered by EOSE within 5s", c.id, s))
						return
					}
				default:
					s := fmt.Sprintf("s%d", rr.Intn(2))
					a := emsg("CLOSE")
					a["sub"] = s
					if !c.write(a, &mocrelay.ClientCloseMsg{SubscriptionID: s}) {
						return
					}
				}
			}
		}(c, rand.New(rand.NewSource(seed*257+int64(c.id))))
	}
	wg.Wait()
	tr := tv.Trace{Name: fmt.Sprintf("e2e-seed%d-k%d-bulk%d", seed, K, bulk)}
	tr.Lines = append(tr.Lines, map[string]any{"op": "reset"})
	complete := problem == ""
	if complete {
		fs := []abs.Filter{{Kinds: abs.IntSet{P: true, S: []int64{9}}}}
		for _, c := range conns {
			a := emsg("REQ")
			a["sub"] = "zz"
			a["fs"] = abs.NormFilters(fs)
			if !c.write(a, &mocrelay.ClientReqMsg{SubscriptionID: "zz", ReqFilters: conc.Filters(fs)}) ||
				!c.wait(func() bool { return c.eose["zz"] >= 1 }, 5*time.Second) {
				complete = false
				setProblem(fmt.Sprintf("connection %d: drain REQ not answered", c.id))
			}
		}
		p := conns[0]
		for _, id := range []string{"z1", "z2"} {
			mk := abs.Event{ID: id, Author: "z", Kind: 9, TS: 9}
			evMu.Lock()
			evs[id] = mk
			evMu.Unlock()
			a := emsg("EVENT")
			a["id"] = id
			a["ev"] = mk
			if !p.write(a, &mocrelay.ClientEventMsg{Event: conc.SignedEvent(mk, "drain "+id)}) ||
				!p.wait(func() bool { return p.oks[id] >= 1 }, 5*time.Second) {
				complete = false
				setProblem("drain marker not acknowledged")
			}
		}
		for _, c := range conns {
			if !c.wait(func() bool { return c.got["zz|z2"] }, 5*time.Second) {
				complete = false
				setProblem(fmt.Sprintf("connection %d did not receive the drain marker", c.id))
			}
		}
	}
	cancel()
	for _, d := range dones {
		select {
		case <-d:
		case <-time.After(2 * time.Second):
		}
	}
	rec.mu.Lock()
	tr.Lines = append(tr.Lines, rec.lines...)
	rec.mu.Unlock()
	if complete {
		tr.Lines = append(tr.Lines, map[string]any{"op": "quiesce", "shape": "quiesce: an EOSE / OK / live delivery is missing"})
	}
	return tr, problem
}

// E2E: the whole relay over WebSocket, beyond the listed properties.
func E2E(run *core.Run) {
	n := 40
	if run.Thorough() {
		n = 400
	}
	var traces []tv.Trace
	distinct := core.NewDistinct()
	for i := 0; i < n; i++ {
		tr, problem := runE2EScenario(run.Seed*900000 + int64(i))
		if problem != "" {
			run.Violate("e2e:progress:"+stripDigits(problem), problem+" ("+tr.Name+")", map[string]any{"trace": tr.Lines})
		}
		if tr.Lines == nil || len(tr.Lines) > 200 {
			run.Add("scenarios_skipped", 1)
			continue
		}
		traces = append(traces, tr)
		distinct.Add(tr.Name)
		run.Add("observations", int64(len(tr.Lines)))
	}
	out, err := tv.ValidateChunks(relayTraceSpec, nil, traces, 6, 2, 10)
	if out != nil {
		run.Add("traces_validated_against_impl", int64(out.Accepted+len(out.Rejects)))
		run.Add("states", out.TLCStates)
		run.Add("transitions", out.TLCTrans)
	}
	if err != nil {
		run.Problem("RelayTrace validation failed to run: %v", err)
	} else {
		for _, rj := range out.Rejects {
			b, _ := json.Marshal(rj.Line)
			run.Violate("e2e:"+lineShape(rj.Line), fmt.Sprintf("%s line %d is not allowed by RelayObs: %s", rj.Trace.Name, rj.LineIdx, b), map[string]any{"trace": rj.Trace.Lines[:rj.LineIdx+1]})
		}
		if len(traces) > 0 {
			run.Sample(map[string]any{"name": traces[0].Name, "first_lines": traces[0].Lines[:min(8, len(traces[0].Lines))]})
			// canary: a delivery repeated right behind itself must be rejected
			done := false
			for _, tr := range traces {
				var lines []any
				for _, l := range tr.Lines {
					lines = append(lines, l)
					m := l.(map[string]any)
					if !done && m["op"] == "ev" && m["t"] == "got" && m["m"].(map[string]any)["k"] == "SEVENT" {
						lines = append(lines, l, l, l)
						done = true
					}
				}
				if done {
					rej, err := tv.Rejects(relayTraceSpec, nil, tv.Trace{Name: "canary", Lines: lines})
					if err != nil {
						run.Problem("canary failed to run: %v", err)
					} else if !rej {
						run.Problem("canary (a delivery repeated three more times) accepted by RelayTrace")
					} else {
						run.Add("canaries_rejected", 1)
					}
					break
				}
			}
			if !done {
				run.Problem("no delivery in any trace: the scenarios are vacuous")
			}
		}
	}
	run.Set("rule", "end-to-end, beyond the listed properties: 2-4 WebSocket clients against Relay(Prometheus(Merge(Cache(100), Router(100), SQLite))) as cmd/mocrelay composes it; really signed regular events, REQ over 6 filter lists on 2 subscription ids (re-issued only after EOSE), CLOSE, re-submission of acknowledged events; snd / got observations in one total order; TLC validates every prefix against RelayObs!StepOK and the drained end against QuiesceOK. distinct_nontrivial = distinct scenarios")
	run.Set("evaluations", run.Get("observations"))
	run.Set("distinct_nontrivial", distinct.Len())
}
