package checks

import (
	"encoding/json"
	"fmt"
	"sync"
	"time"

	"github.com/high-moctane/mocrelay"

	"verif/harness/internal/abs"
	"verif/harness/internal/core"
	"verif/harness/internal/tlcrun"
	"verif/harness/internal/tv"
)

var matcherTraceSpec = tv.Spec{Module: "MatcherTrace", Config: "MatcherTrace.cfg"}

// C02: filter matching equals the NIP-01 predicate; limit-counting form.
func C02(run *core.Run) {
	conc := abs.NewConc()
	distinct := core.NewDistinct()

	// (a) verdict table of Nostr!Matches from TLC, compared pair by pair
	stride, offset := 25, int(run.Seed%25)
	if run.Thorough() {
		stride, offset = 1, 0
	}
	var events []abs.Event
	var real []*mocrelay.Event
	type row struct {
		I int         `json:"i"`
		F *abs.Filter `json:"f"`
		M []int       `json:"m"`
	}
	var rows, rows3 []row
	var events3 []abs.Event
	res, err := tlcrun.Run(tlcrun.Options{
		Module: "MatchMC", Config: "MatchMC.cfg", Workers: 16, Timeout: 20 * time.Minute,
		Consts: map[string]string{"Stride": fmt.Sprint(stride), "Offset": fmt.Sprint(offset)},
		OnJSON: func(line string) {
			var t struct {
				Events  []abs.Event `json:"events"`
				Events3 []abs.Event `json:"events3"`
				I3      *int        `json:"i3"`
				row
			}
			if err := json.Unmarshal([]byte(line), &t); err != nil {
				run.Problem("bad export line: %v", err)
				return
			}
			if t.Events != nil {
				events = t.Events
				return
			}
			if t.Events3 != nil {
				events3 = t.Events3
				return
			}
			if t.I3 != nil {
				rows3 = append(rows3, t.row)
				return
			}
			rows = append(rows, t.row)
		},
	})
	if err != nil || !res.OK {
		tail := ""
		if res != nil {
			tail = res.Tail
		}
		run.Problem("TLC failed on MatchMC: %v\n%s", err, tail)
	} else {
		run.Add("states", res.Distinct)
		run.Add("transitions", res.Generated)
		for _, e := range events {
			real = append(real, conc.Event(e, ""))
		}
		for _, rw := range rows {
			if rw.F == nil {
				continue
			}
			want := map[int]bool{}
			for _, j := range rw.M {
				want[j] = true
			}
			rf := conc.Filter(*rw.F)
			m := mocrelay.NewReqFilterMatcher(rf)
			ms := mocrelay.NewReqFiltersEventLimitMatcher([]*mocrelay.ReqFilter{rf})
			for j, ev := range real {
				got := m.Match(ev)
				got2 := ms.Match(ev)
				run.Add("pairs_compared", 1)
				if want[j+1] {
					distinct.Add(fmt.Sprintf("%d/%d", rw.I, j))
				}
				if got != want[j+1] || got2 != got {
					run.Violate(fmt.Sprintf("match:%s want=%v got=%v", describeFilters([]abs.Filter{*rw.F}), want[j+1], got),
						fmt.Sprintf("filter %s event %+v: Nostr!Matches = %v, Match = %v, list Match = %v", rw.F.Key(), events[j], want[j+1], got, got2),
						map[string]any{"filter": rw.F, "event": events[j]})
				}
			}
		}
		// the three-tag-name table
		for _, rw := range rows3 {
			want := map[int]bool{}
			for _, j := range rw.M {
				want[j] = true
			}
			m := mocrelay.NewReqFilterMatcher(conc.Filter(*rw.F))
			for j, e := range events3 {
				got := m.Match(conc.Event(e, ""))
				run.Add("pairs_compared", 1)
				if want[j+1] {
					distinct.Add(fmt.Sprintf("t3 %d/%d", rw.I, j))
				}
				if got != want[j+1] {
					run.Violate(fmt.Sprintf("match3:%s want=%v got=%v", describeFilters([]abs.Filter{*rw.F}), want[j+1], got),
						fmt.Sprintf("filter %s event %+v: Nostr!Matches = %v, Match = %v", rw.F.Key(), e, want[j+1], got), map[string]any{"filter": rw.F, "event": e})
				}
			}
		}
		// (a') one matcher shared by concurrent callers (the router's subscriptions and the allow /
		// deny middlewares share one matcher between sessions): every answer must still be the table's
		{
			type shared struct {
				f    *abs.Filter
				m    mocrelay.EventMatcher
				evs  []*mocrelay.Event
				want []bool
			}
			var jobs []shared
			add := func(rw row, evs []*mocrelay.Event) {
				want := make([]bool, len(evs))
				pos := 0
				for _, j := range rw.M {
					want[j-1] = true
					pos++
				}
				if pos == 0 || pos == len(evs) || len(rw.F.Tags) == 0 {
					return
				}
				jobs = append(jobs, shared{rw.F, mocrelay.NewReqFilterMatcher(conc.Filter(*rw.F)), evs, want})
			}
			var real3 []*mocrelay.Event
			for _, e := range events3 {
				real3 = append(real3, conc.Event(e, ""))
			}
			for i, rw := range rows3 {
				if i%3 == int(run.Seed%3) || run.Thorough() {
					add(rw, real3)
				}
			}
			for i, rw := range rows {
				if rw.F != nil && len(rw.F.Tags) >= 2 && (i%4 == int(run.Seed%4) || run.Thorough()) {
					add(rw, real)
				}
			}
			if len(jobs) > 60 && !run.Thorough() {
				jobs = jobs[:60]
			}
			for _, jb := range jobs {
				var wg sync.WaitGroup
				var mu sync.Mutex
				badJ := -1
				for g := 0; g < 8; g++ {
					wg.Add(1)
					go func(g int) {
						defer wg.Done()
						n := len(jb.evs)
						for rep := 0; rep < 12; rep++ {
							for k := 0; k < n; k++ {
								j := (k*7 + g*3 + rep) % n
								if jb.m.Match(jb.evs[j]) != jb.want[j] {
									mu.Lock()
									badJ = j
									mu.Unlock()
									return
								}
							}
						}
					}(g)
				}
				wg.Wait()
				run.Add("concurrent_match_calls", int64(8*12*len(jb.evs)))
				if badJ >= 0 {
					run.Violate("match-concurrent:"+describeFilters([]abs.Filter{*jb.f}),
						fmt.Sprintf("matcher of filter %s shared by 8 goroutines: Match(event #%d) differs from Nostr!Matches = %v", jb.f.Key(), badJ, jb.want[badJ]),
						map[string]any{"filter": jb.f, "event_index": badJ})
				}
			}
		}
		if len(rows) > 0 {
			run.Sample(map[string]any{"filter": rows[len(rows)/2].F, "matching_event_indices": rows[len(rows)/2].M})
		}
		run.Set("filters_in_table", int64(len(rows)))
	}

	// (b) exhaustive behaviours of the limit-counting matcher, replayed
	type hstep struct {
		E    abs.Event `json:"e"`
		Res  bool      `json:"res"`
		Done bool      `json:"done"`
	}
	maxLen := 3
	if run.Thorough() {
		maxLen = 4
	}
	nb := 0
	res2, err := tlcrun.Run(tlcrun.Options{
		Module: "MatcherMC", Config: "MatcherMC.cfg", Workers: 1, Timeout: 20 * time.Minute,
		Consts: map[string]string{"MaxLen": fmt.Sprint(maxLen)},
		OnJSON: func(line string) {
			var t struct {
				Fs   []abs.Filter `json:"fs"`
				Hist []hstep      `json:"hist"`
			}
			if err := json.Unmarshal([]byte(line), &t); err != nil {
				run.Problem("bad export line: %v", err)
				return
			}
			nb++
			m := mocrelay.NewReqFiltersEventLimitMatcher(conc.Filters(t.Fs))
			for k, st := range t.Hist {
				got := m.LimitMatch(conc.Event(st.E, ""))
				done := m.Done()
				run.Add("limit_steps_replayed", 1)
				if got != st.Res || done != st.Done {
					run.Violate(fmt.Sprintf("limitmatch:%s step=%d want(res=%v,done=%v) got(res=%v,done=%v)", describeFilters(t.Fs), k, st.Res, st.Done, got, done),
						fmt.Sprintf("filters %v history %+v", t.Fs, t.Hist), map[string]any{"fs": t.Fs, "hist": t.Hist})
					break
				}
			}
			if nb == 777 {
				run.Sample(map[string]any{"fs": t.Fs, "behaviour": t.Hist})
			}
		},
	})
	if err != nil || !res2.OK {
		tail := ""
		if res2 != nil {
			tail = res2.Tail
		}
		run.Problem("TLC failed on MatcherMC: %v\n%s", err, tail)
	} else {
		run.Add("states", res2.Distinct)
		run.Add("transitions", res2.Generated)
		run.Set("limit_behaviours_replayed", int64(nb))
	}

	// (c) random real matcher sessions validated against MatcherTrace
	nt := 150
	if run.Thorough() {
		nt = 1500
	}
	r := run.Rand("c02")
	var traces []tv.Trace
	for t := 0; t < nt; t++ {
		g := NewGen(r, fmt.Sprintf("m%d_", t))
		g.MaxTS = 6
		g.Extreme = t%3 == 0
		for i := 0; i < 6; i++ {
			g.Event()
		}
		fs := g.Filters()
		dup := t%5 == 4 && len(fs) == 1
		if dup { // the same filter twice in one list
			fs = append(fs, fs[0])
		}
		cfs := conc.Filters(fs)
		if dup {
			cfs[1] = cfs[0] // ... as the very same *ReqFilter
		}
		m := mocrelay.NewReqFiltersEventLimitMatcher(cfs)
		tr := tv.Trace{Name: fmt.Sprintf("matcher-%d", t)}
		tr.Lines = append(tr.Lines, map[string]any{"op": "reset", "fs": abs.NormFilters(fs), "shape": describeFilters(fs)})
		for i := 0; i < 18; i++ {
			if i == 9 {
				// a second matcher built from the very same filter values starts from zero
				m = mocrelay.NewReqFiltersEventLimitMatcher(cfs)
				tr.Lines = append(tr.Lines, map[string]any{"op": "reset", "fs": abs.NormFilters(fs), "shape": "second matcher from the same filters " + describeFilters(fs)})
				tr.Lines = append(tr.Lines, map[string]any{"op": "done", "res": m.Done(), "shape": "done of a second matcher built from the same filters " + describeFilters(fs)})
			}
			e := g.Offer()
			ce := conc.Event(e, "")
			switch r.Intn(3) {
			case 0:
				tr.Lines = append(tr.Lines, map[string]any{"op": "match", "e": e, "res": m.Match(ce), "shape": "match " + describeFilters(fs)})
			default:
				tr.Lines = append(tr.Lines, map[string]any{"op": "limitmatch", "e": e, "res": m.LimitMatch(ce), "shape": "limitmatch " + describeFilters(fs)})
			}
			tr.Lines = append(tr.Lines, map[string]any{"op": "done", "res": m.Done(), "shape": "done " + describeFilters(fs)})
		}
		traces = append(traces, tr)
	}
	out, err := tv.Validate(matcherTraceSpec, nil, traces, 6)
	if out != nil {
		run.Add("traces_validated_against_impl", int64(out.Accepted+len(out.Rejects)))
		run.Add("trace_lines", int64(out.Lines))
	}
	if err != nil {
		run.Problem("matcher trace validation failed to run: %v", err)
	} else {
		for _, rj := range out.Rejects {
			b, _ := json.Marshal(rj.Line)
			run.Violate("trace:"+lineShape(rj.Line), fmt.Sprintf("%s line %d: %s", rj.Trace.Name, rj.LineIdx, b),
				map[string]any{"trace": rj.Trace.Lines[:rj.LineIdx+1]})
		}
		// canary: flip one recorded verdict
		c := tv.Trace{Name: "canary"}
		for i, l := range traces[0].Lines {
			m := l.(map[string]any)
			if i == 1 {
				cp := map[string]any{}
				for k, v := range m {
					cp[k] = v
				}
				cp["res"] = !(m["res"].(bool))
				c.Lines = append(c.Lines, cp)
				continue
			}
			c.Lines = append(c.Lines, l)
		}
		rej, err := tv.Rejects(matcherTraceSpec, nil, c)
		if err != nil {
			run.Problem("canary failed to run: %v", err)
		} else if !rej {
			run.Problem("canary (flipped verdict) accepted by MatcherTrace")
		} else {
			run.Add("canaries_rejected", 1)
		}
	}
	run.Set("rule", "TLC evaluates Nostr!Matches over 504 events x a slice (quick: 1/25 chosen by seed; thorough: all) of 15,360 filters (ids/authors/kinds/#t/#p absent, empty, one, several; since/until absent or 1..3) and exports the verdict table, which is compared with Match pair by pair; TLC enumerates every behaviour of the limit-counting matcher (420 filter lists x all event sequences of length MaxLen) and each is replayed; random sessions are validated against MatcherTrace. distinct_nontrivial = distinct (filter, event) pairs with a positive verdict")
	run.Set("evaluations", run.Get("pairs_compared")+run.Get("limit_steps_replayed")+run.Get("trace_lines"))
	run.Set("distinct_nontrivial", distinct.Len())
	run.Set("exhaustive", run.Thorough())
	run.Assume = append(run.Assume, "a tag without a value element is treated as not matching any listed (non-empty) value; matching the empty string is left open")
}
