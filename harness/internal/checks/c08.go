package checks

import "verif/harness/internal/core"

// C08: merged REQ.
func C08(run *core.Run) {
	n := 150
	if run.Thorough() {
		n = 600
	}
	mergeCheck(run, "req", n)
	mergeCanary(run, "req")
	run.Set("rule", "seeded free-running scenarios: NewMergeHandler over 2-4 scripted children (stored events sorted / unsorted / duplicated / non-matching, two of them tagged (two values of one tag name; two tag names), EOSE before or after the events, live events after EOSE, shared events between children) and a pipelining client (REQ with 8 filter lists incl. limit 0/1/2 and two tag conditions, CLOSE before/after EOSE, re-REQ of an id only after its EOSE); client and children record csnd / cgot / chrecv / emits observations in one total order; TLC validates every prefix against MergeObs!StepOK (one EOSE after all children's, none after a close that precedes a child's EOSE, stored phase matching / distinct / ordered / limited, provenance and label of every forwarded message) and the drained end against QuiesceOK (EOSE delivered, live events after EOSE forwarded in child order). distinct_nontrivial = distinct scenarios")
	run.Assume = append(run.Assume, "events a child emits between its own EOSE and the merged EOSE may be dropped (the property is silent)",
		"after a CLOSE sent before the EOSE was received the EOSE is optional unless a child demonstrably emitted its EOSE after receiving the CLOSE")
}

// C09: merged EVENT / COUNT.
func C09(run *core.Run) {
	n := 200
	if run.Thorough() {
		n = 800
	}
	mergeCheck(run, "okcount", n)
	mergeCanary(run, "okcount")
	run.Set("rule", "seeded free-running scenarios: 2-4 scripted children answering every EVENT with one OK (random verdict, reason with / without machine-readable prefix, empty reason) and every COUNT with one COUNT (random value, approximate flag absent / true / false independently of it) in request order; the client pipelines EVENTs over 3 ids (repeats in flight) and COUNTs over 2 subscription ids; TLC validates against MergeObs: the k-th OK for an id follows the k-th submission and every child's k-th verdict, accepted iff all accepted, rejected text starts with the lowest-index rejecting child's reason; COUNT = max; at quiescence #OK = #EVENT and #COUNT replies = #COUNT requests. distinct_nontrivial = distinct scenarios")
	run.Assume = append(run.Assume, "children answer each EVENT with exactly one OK and each COUNT with exactly one COUNT, in request order (the property's premise)")
}
