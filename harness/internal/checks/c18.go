package checks

import (
	"context"
	"encoding/json"
	"fmt"
	"math/rand"
	"sort"
	"strings"
	"sync"
	"time"

	"github.com/high-moctane/mocrelay"

	"verif/harness/internal/abs"
	"verif/harness/internal/core"
	"verif/harness/internal/tlcrun"
	"verif/harness/internal/tv"
)

var statefulTraceSpec = tv.Spec{Module: "StatefulTrace", Config: "StatefulTrace.cfg"}

// echoHandler answers every client message so that each step of a session has
// an observable end: REQ -> EOSE, CLOSE -> NOTICE (CLOSE "e:<id>" first emits
// the server EVENT <id>), EVENT -> OK true, COUNT -> COUNT.
type echoHandler struct{ conc *abs.Conc }

func (h echoHandler) ServeNostr(ctx context.Context, send chan<- mocrelay.ServerMsg, recv <-chan mocrelay.ClientMsg) error {
	put := func(m mocrelay.ServerMsg) bool {
		select {
		case send <- m:
			return true
		case <-ctx.Done():
			return false
		}
	}
	for {
		select {
		case <-ctx.Done():
			return ctx.Err()
		case m, ok := <-recv:
			if !ok {
				return mocrelay.ErrRecvClosed
			}
			switch m := m.(type) {
			case *mocrelay.ClientReqMsg:
				if !put(mocrelay.NewServerEOSEMsg(m.SubscriptionID)) {
					return ctx.Err()
				}
			case *mocrelay.ClientCloseMsg:
				if strings.HasPrefix(m.SubscriptionID, "e:") {
					id := strings.TrimPrefix(m.SubscriptionID, "e:")
					ev := h.conc.Event(abs.Event{ID: id, Author: "a", Kind: 1, TS: 1}, "served")
					if !put(mocrelay.NewServerEventMsg("live", ev)) {
						return ctx.Err()
					}
				}
				if !put(mocrelay.NewServerNoticeMsg("closed " + m.SubscriptionID)) {
					return ctx.Err()
				}
			case *mocrelay.ClientEventMsg:
				// downstream's verdict is its own business: some ids are refused with the prefixes a
				// storage handler uses under load; the window of the filter in front does not depend on it
				acc, prefix := true, ""
				switch h.conc.Label(m.Event.ID) {
				case "z":
					acc, prefix = false, mocrelay.MachineReadablePrefixRateLimited
				case "w":
					acc, prefix = false, mocrelay.MachineReadablePrefixError
				}
				if !put(mocrelay.NewServerOKMsg(m.Event.ID, acc, prefix, "downstream")) {
					return ctx.Err()
				}
			case *mocrelay.ClientCountMsg:
				if !put(mocrelay.NewServerCountMsg(m.SubscriptionID, 0, nil)) {
					return ctx.Err()
				}
			}
		}
	}
}

// stepSession drives one session step by step.
type stepSession struct {
	cancel context.CancelFunc
	send   chan mocrelay.ServerMsg
	recv   chan mocrelay.ClientMsg
	done   chan error
}

func newStepSession(h mocrelay.Handler) *stepSession {
	ctx, cancel := context.WithCancel(context.Background())
	s := &stepSession{cancel: cancel, send: make(chan mocrelay.ServerMsg), recv: make(chan mocrelay.ClientMsg), done: make(chan error, 1)}
	go func() { s.done <- h.ServeNostr(ctx, s.send, s.recv) }()
	return s
}

// do sends m and collects replies until `last` says the step is over.
func (s *stepSession) do(m mocrelay.ClientMsg, last func(mocrelay.ServerMsg) bool) ([]mocrelay.ServerMsg, error) {
	select {
	case s.recv <- m:
	case <-time.After(5 * time.Second):
		return nil, fmt.Errorf("session does not take input")
	}
	var outs []mocrelay.ServerMsg
	for {
		select {
		case o := <-s.send:
			outs = append(outs, o)
			if last(o) {
				return outs, nil
			}
		case <-time.After(5 * time.Second):
			return outs, fmt.Errorf("no reply within 5s")
		}
	}
}
func (s *stepSession) close() {
	s.cancel()
	select {
	case <-s.done:
	case <-time.After(3 * time.Second):
	}
}

type quotaEdge struct {
	N   int      `json:"n"`
	S   []string `json:"s"`
	A   string   `json:"a"`
	X   string   `json:"x"`
	Fwd bool     `json:"fwd"`
	T   []string `json:"t"`
}
type uniqueEdge struct {
	Size int      `json:"size"`
	W    []string `json:"w"`
	E    []string `json:"e"`
	ID   string   `json:"id"`
	V    string   `json:"v"`
	W2   []string `json:"w2"`
	E2   []string `json:"e2"`
}

func setKey(s []string) string {
	c := append([]string{}, s...)
	sort.Strings(c)
	return strings.Join(c, ",")
}

// one step of each kind against a real session; returns the observed decision
func quotaStep(ss *stepSession, a, x string) (fwd bool, err error) {
	if a == "COUNT" {
		outs, err := ss.do(&mocrelay.ClientCountMsg{SubscriptionID: x, ReqFilters: []*mocrelay.ReqFilter{{}}}, func(m mocrelay.ServerMsg) bool {
			switch m := m.(type) {
			case *mocrelay.ServerCountMsg:
				return m.SubscriptionID == x
			case *mocrelay.ServerClosedMsg:
				return m.SubscriptionID == x
			}
			return false
		})
		if err != nil {
			return false, err
		}
		if len(outs) != 1 {
			return false, fmt.Errorf("COUNT %s answered by %d messages", x, len(outs))
		}
		_, isCount := outs[0].(*mocrelay.ServerCountMsg)
		return isCount, nil
	}
	if a == "REQ" || a == "REQX" {
		filters := []*mocrelay.ReqFilter{{}}
		if a == "REQX" { // three filters: refused by max_filters = 2 of the NIP-11 chain
			filters = []*mocrelay.ReqFilter{{}, {}, {}}
		}
		outs, err := ss.do(&mocrelay.ClientReqMsg{SubscriptionID: x, ReqFilters: filters}, func(m mocrelay.ServerMsg) bool {
			switch m := m.(type) {
			case *mocrelay.ServerEOSEMsg:
				return m.SubscriptionID == x
			case *mocrelay.ServerClosedMsg:
				return m.SubscriptionID == x
			}
			return false
		})
		if err != nil {
			return false, err
		}
		if len(outs) != 1 {
			return false, fmt.Errorf("REQ %s answered by %d messages", x, len(outs))
		}
		_, isEOSE := outs[0].(*mocrelay.ServerEOSEMsg)
		return isEOSE, nil
	}
	outs, err := ss.do(&mocrelay.ClientCloseMsg{SubscriptionID: x}, func(m mocrelay.ServerMsg) bool {
		n, ok := m.(*mocrelay.ServerNoticeMsg)
		return ok && n.Message == "closed "+x
	})
	if err != nil {
		return false, err
	}
	if len(outs) != 1 {
		return false, fmt.Errorf("CLOSE %s answered by %d messages", x, len(outs))
	}
	return true, nil
}

func recvUniqueStep(ss *stepSession, conc *abs.Conc, id string) (passed bool, err error) {
	ev := conc.Event(abs.Event{ID: id, Author: "a", Kind: 1, TS: 1}, "u")
	outs, err := ss.do(&mocrelay.ClientEventMsg{Event: ev}, func(m mocrelay.ServerMsg) bool {
		o, ok := m.(*mocrelay.ServerOKMsg)
		return ok && o.EventID == ev.ID
	})
	if err != nil {
		return false, err
	}
	if len(outs) != 1 {
		return false, fmt.Errorf("EVENT %s answered by %d messages", id, len(outs))
	}
	ok := outs[0].(*mocrelay.ServerOKMsg)
	if ok.Msg == "downstream" {
		return true, nil // the event was forwarded; the reply (accepting or not) is downstream's
	}
	if ok.Accepted {
		return false, fmt.Errorf("accepting OK not from downstream")
	}
	if ok.MsgPrefix != mocrelay.MachineReadablePrefixDuplicate {
		return false, fmt.Errorf("suppressed EVENT answered without the duplicate: prefix (%q)", ok.Message())
	}
	return false, nil
}

func sendUniqueStep(ss *stepSession, conc *abs.Conc, id string) (passed bool, err error) {
	outs, err := ss.do(&mocrelay.ClientCloseMsg{SubscriptionID: "e:" + id}, func(m mocrelay.ServerMsg) bool {
		n, ok := m.(*mocrelay.ServerNoticeMsg)
		return ok && n.Message == "closed e:"+id
	})
	if err != nil {
		return false, err
	}
	switch len(outs) {
	case 1:
		return false, nil
	case 2:
		em, ok := outs[0].(*mocrelay.ServerEventMsg)
		if !ok || conc.Label(em.Event.ID) != id {
			return false, fmt.Errorf("unexpected message before the NOTICE")
		}
		return true, nil
	}
	return false, fmt.Errorf("%d messages for one served event", len(outs))
}

// C18: stateful middlewares.
// inductiveInvariants: Apalache proves QuotaInv for every quota n (QuotaInd) and WindowInv for
// histories of any length (UniqueInd) as inductive invariants -- beyond the bounds TLC explores.
// In the thorough tier a deliberately broken variant of each must be refuted (non-vacuity).
func inductiveInvariants(run *core.Run) {
	type job struct {
		module, init string
		length       int
		subst        [2]string
		wantError    bool
	}
	jobs := []job{
		{"QuotaInd", "Init", 0, [2]string{}, false},
		{"QuotaInd", "IndInit", 1, [2]string{}, false},
		{"UniqueInd", "Init", 0, [2]string{}, false},
		{"UniqueInd", "IndInit", 1, [2]string{}, false},
	}
	if run.Thorough() {
		jobs = append(jobs,
			job{"QuotaInd", "IndInit", 1, [2]string{"Cardinality(open) < n", "Cardinality(open) <= n"}, true},
			job{"UniqueInd", "IndInit", 1, [2]string{"<<id>> \\o Without(w0, id)", "<<id>> \\o w0"}, true})
	}
	for _, j := range jobs {
		res, err := tlcrun.Apalache(j.module, j.init, "IndInv", j.length, j.subst, 15*time.Minute)
		switch {
		case err != nil:
			tail := ""
			if res != nil {
				tail = res.Tail
			}
			run.Problem("Apalache failed on %s (%s): %v\n%s", j.module, j.init, err, tail)
		case j.wantError && !res.Error:
			run.Problem("Apalache accepts a deliberately broken variant of %s: the inductive check is vacuous", j.module)
		case !j.wantError && !res.OK:
			run.Problem("Apalache refutes the inductive invariant of %s (%s) (model error, not a verdict on the code):\n%s", j.module, j.init, res.Tail)
		case j.wantError:
			run.Add("model_witnesses", 1)
		default:
			run.Add("inductive_obligations_proved", 1)
		}
	}
}

func C18(run *core.Run) {
	conc := abs.NewConc()
	distinct := core.NewDistinct()
	inductiveInvariants(run)
	depth := 4
	if run.Thorough() {
		depth = 6
	}
	// ---- quota: exported relation, all histories up to `depth`, concurrent sessions on one middleware value
	qrel := map[string]quotaEdge{}
	res, err := tlcrun.Run(tlcrun.Options{Module: "Quota", Config: "Quota.cfg", Workers: 1, Timeout: 10 * time.Minute,
		OnJSON: func(line string) {
			var e quotaEdge
			if json.Unmarshal([]byte(line), &e) == nil {
				qrel[fmt.Sprintf("%d|%s|%s|%s", e.N, setKey(e.S), e.A, e.X)] = e
			}
		}})
	if err != nil || !res.OK || len(qrel) == 0 {
		run.Problem("TLC failed on Quota: %v", err)
	} else {
		run.Add("states", res.Distinct)
		run.Add("transitions", res.Generated)
		for n := 1; n <= 3; n++ {
			for variant, mk := range []func() mocrelay.Handler{
				func() mocrelay.Handler {
					return mocrelay.Middleware(mocrelay.NewMaxSubscriptionsMiddleware(n))(echoHandler{conc})
				},
				func() mocrelay.Handler {
					return mocrelay.BuildMiddlewareFromNIP11(&mocrelay.NIP11{Limitation: &mocrelay.NIP11Limitation{MaxSubscriptions: n, MaxFilters: 2, MaxLimit: 100}})(echoHandler{conc})
				},
			} {
				h := mk() // one middleware value shared by all concurrent sessions
				actions := []string{"REQ a", "REQ b", "REQ c", "REQ d", "CLOSE a", "CLOSE b", "CLOSE c", "COUNT a", "COUNT d"}
				var hist [][]string
				var gen func(prefix []string)
				gen = func(prefix []string) {
					if len(prefix) == depth {
						hist = append(hist, append([]string{}, prefix...))
						return
					}
					for _, a := range actions {
						gen(append(prefix, a))
					}
				}
				if variant == 0 {
					gen(nil)
				} else {
					// the NIP-11 chain: a seeded sample of the histories
					r := run.Rand(fmt.Sprint("c18-nip", n))
					nipActions := append(append([]string{}, actions...), "REQX a", "REQX b", "REQX c", "REQX d")
					for i := 0; i < 300; i++ {
						var p []string
						for k := 0; k < depth+2; k++ {
							p = append(p, nipActions[r.Intn(len(nipActions))])
						}
						hist = append(hist, p)
					}
				}
				var wg sync.WaitGroup
				sem := make(chan struct{}, 16)
				for _, p := range hist {
					wg.Add(1)
					sem <- struct{}{}
					go func(p []string) {
						defer wg.Done()
						defer func() { <-sem }()
						ss := newStepSession(h)
						defer ss.close()
						open := []string{}
						for i, a := range p {
							parts := strings.SplitN(a, " ", 2)
							fwd, err := quotaStep(ss, parts[0], parts[1])
							run.Add("steps", 1)
							e, ok := qrel[fmt.Sprintf("%d|%s|%s|%s", n, setKey(open), parts[0], parts[1])]
							if !ok {
								run.Problem("state not in the exported Quota relation: %v", open)
								return
							}
							distinct.Add(fmt.Sprintf("quota %d|%s|%s", n, setKey(open), a))
							if err != nil || fwd != e.Fwd {
								run.Violate(fmt.Sprintf("quota:N=%d open=%d %s expected fwd=%v got fwd=%v err=%v variant=%d", n, len(open), parts[0], e.Fwd, fwd, err != nil, variant),
									fmt.Sprintf("N=%d history %v step %d (%s): specification forwards=%v, observed forwards=%v (%v)", n, p, i, a, e.Fwd, fwd, err),
									map[string]any{"n": n, "history": p, "step": i})
								return
							}
							open = e.T
						}
					}(p)
				}
				wg.Wait()
			}
		}
	}
	// ---- unique filters: exported relation, all histories of the model, receive and send side
	urel := map[string]uniqueEdge{}
	res2, err := tlcrun.Run(tlcrun.Options{Module: "Unique", Config: "Unique.cfg", Workers: 1, Timeout: 10 * time.Minute,
		OnJSON: func(line string) {
			var e uniqueEdge
			if json.Unmarshal([]byte(line), &e) == nil {
				urel[fmt.Sprintf("%d|%s|%s|%s", e.Size, strings.Join(e.W, ","), setKey(e.E), e.ID)] = e
			}
		}})
	if err != nil || !res2.OK || len(urel) == 0 {
		run.Problem("TLC failed on Unique: %v", err)
	} else {
		run.Add("states", res2.Distinct)
		run.Add("transitions", res2.Generated)
		ids := []string{"x", "y", "z", "w"}
		udepth := depth + 1
		for size := 1; size <= 3; size++ {
			for side := 0; side < 2; side++ {
				var h mocrelay.Handler
				if side == 0 {
					h = mocrelay.Middleware(mocrelay.NewRecvEventUniqueFilterMiddleware(size))(echoHandler{conc})
				} else {
					h = mocrelay.Middleware(mocrelay.NewSendEventUniqueFilterMiddleware(size))(echoHandler{conc})
				}
				var hist [][]string
				var gen func(prefix []string)
				gen = func(prefix []string) {
					if len(prefix) == udepth {
						hist = append(hist, append([]string{}, prefix...))
						return
					}
					for _, a := range ids {
						gen(append(prefix, a))
					}
				}
				gen(nil)
				var wg sync.WaitGroup
				sem := make(chan struct{}, 16)
				for _, p := range hist {
					wg.Add(1)
					sem <- struct{}{}
					go func(p []string) {
						defer wg.Done()
						defer func() { <-sem }()
						ss := newStepSession(h)
						defer ss.close()
						win, ever := []string{}, []string{}
						for i, id := range p {
							var passed bool
							var err error
							if side == 0 {
								passed, err = recvUniqueStep(ss, conc, id)
							} else {
								passed, err = sendUniqueStep(ss, conc, id)
							}
							if err == nil && (i+len(p[0]))%2 == 0 {
								// unrelated client traffic in between: the windows are not affected by it
								if _, e2 := quotaStep(ss, "REQ", "q"); e2 != nil {
									err = e2
								}
							}
							run.Add("steps", 1)
							e, ok := urel[fmt.Sprintf("%d|%s|%s|%s", size, strings.Join(win, ","), setKey(ever), id)]
							if !ok {
								run.Problem("state not in the exported Unique relation: %v %v", win, ever)
								return
							}
							distinct.Add(fmt.Sprintf("unique %d|%d|%s|%s|%s", side, size, strings.Join(win, ","), setKey(ever), id))
							bad := err != nil || (e.V == "suppress" && passed) || (e.V == "pass" && !passed)
							if bad {
								run.Violate(fmt.Sprintf("unique:side=%d size=%d verdict=%s passed=%v err=%v", side, size, e.V, passed, err != nil),
									fmt.Sprintf("size %d history %v step %d (id %s): window %v, specification says %s, observed passed=%v (%v)", size, p, i, id, win, e.V, passed, err),
									map[string]any{"size": size, "side": side, "history": p, "step": i})
								return
							}
							win, ever = e.W2, e.E2
						}
					}(p)
				}
				wg.Wait()
			}
		}
	}
	// ---- long random histories validated by TLC (StatefulTrace)
	r := run.Rand("c18-long")
	nt := 30
	if run.Thorough() {
		nt = 1500
	}
	var traces []tv.Trace
	for t := 0; t < nt; t++ {
		tr := tv.Trace{Name: fmt.Sprintf("stateful-%d", t)}
		n := 1 + r.Intn(5)
		switch t % 3 {
		case 0:
			h := mocrelay.Middleware(mocrelay.NewMaxSubscriptionsMiddleware(n))(echoHandler{conc})
			tr.Lines = append(tr.Lines, map[string]any{"op": "reset", "kind": "quota", "n": n})
			ss := newStepSession(h)
			for i := 0; i < 60; i++ {
				x := fmt.Sprintf("q%d", r.Intn(n+3))
				a := "REQ"
				if r.Intn(3) == 0 {
					a = "CLOSE"
				}
				fwd, err := quotaStep(ss, a, x)
				if err != nil {
					run.Violate("quota:protocol", err.Error(), nil)
					break
				}
				tr.Lines = append(tr.Lines, map[string]any{"op": a, "x": x, "fwd": fwd, "shape": fmt.Sprintf("quota %s fwd=%v", a, fwd)})
			}
			ss.close()
		default:
			side := t % 3
			var h mocrelay.Handler
			if side == 1 {
				h = mocrelay.Middleware(mocrelay.NewRecvEventUniqueFilterMiddleware(n))(echoHandler{conc})
			} else {
				h = mocrelay.Middleware(mocrelay.NewSendEventUniqueFilterMiddleware(n))(echoHandler{conc})
			}
			tr.Lines = append(tr.Lines, map[string]any{"op": "reset", "kind": "unique", "n": n})
			ss := newStepSession(h)
			for i := 0; i < 60; i++ {
				id := fmt.Sprintf("u%d", r.Intn(n+3))
				var passed bool
				var err error
				if side == 1 {
					passed, err = recvUniqueStep(ss, conc, id)
				} else {
					passed, err = sendUniqueStep(ss, conc, id)
				}
				if err != nil {
					run.Violate("unique:protocol", err.Error(), nil)
					break
				}
				tr.Lines = append(tr.Lines, map[string]any{"op": "ID", "x": id, "passed": passed, "shape": fmt.Sprintf("unique side=%d passed=%v", side, passed)})
			}
			ss.close()
		}
		run.Add("steps", int64(len(tr.Lines)))
		traces = append(traces, tr)
	}
	out, err := tv.ValidateChunks(statefulTraceSpec, nil, traces, 6, 100, 8)
	if out != nil {
		run.Add("traces_validated_against_impl", int64(out.Accepted+len(out.Rejects)))
		run.Add("trace_lines", int64(out.Lines))
	}
	if err != nil {
		run.Problem("StatefulTrace validation failed to run: %v", err)
	} else {
		for _, rj := range out.Rejects {
			b, _ := json.Marshal(rj.Line)
			run.Violate("trace:"+lineShape(rj.Line), fmt.Sprintf("%s line %d: %s", rj.Trace.Name, rj.LineIdx, b), map[string]any{"trace": rj.Trace.Lines[:rj.LineIdx+1]})
		}
		// canary: flip a decision
		c := tv.Trace{Name: "canary"}
		for i, l := range traces[0].Lines {
			m := l.(map[string]any)
			if i == 2 {
				cp := map[string]any{}
				for k, v := range m {
					cp[k] = v
				}
				if f, ok := cp["fwd"].(bool); ok {
					cp["fwd"] = !f
				}
				if f, ok := cp["passed"].(bool); ok {
					cp["passed"] = !f
				}
				c.Lines = append(c.Lines, cp)
				continue
			}
			c.Lines = append(c.Lines, l)
		}
		if rej, err := tv.Rejects(statefulTraceSpec, nil, c); err != nil {
			run.Problem("canary failed to run: %v", err)
		} else if !rej {
			run.Problem("canary (flipped decision) accepted by StatefulTrace")
		} else {
			run.Add("canaries_rejected", 1)
		}
		run.Sample(map[string]any{"trace": traces[0].Name, "lines": traces[0].Lines[:min(6, len(traces[0].Lines))]})
	}
	_ = rand.Int
	run.Set("rule", "Quota.tla and Unique.tla are model-checked (quota invariant, window invariant) and export their transition relations; every history up to the depth bound (quota: 7 actions over 4 ids, N=1..3; unique: 4 ids, size 1..3, receive and send side) is executed step by step as a real session -- all sessions of one configuration run concurrently on ONE middleware value, so state leaking between connections shows as a deviating decision; the NIP-11-built chain with max_subscriptions is driven with sampled histories; long random histories (60 steps, larger alphabets and sizes) are validated by TLC against StatefulTrace. distinct_nontrivial = distinct (state, action) pairs exercised")
	run.Set("evaluations", run.Get("steps"))
	run.Set("distinct_nontrivial", distinct.Len())
	run.Assume = append(run.Assume, "an id that was seen but has fallen out of the window may be forwarded or suppressed (the property leaves it open)")
}

// quotaThroughNIP11: the chain BuildMiddlewareFromNIP11 builds with max_subscriptions (plus
// max_filters / max_limit) behaves like the Quota specification: sampled histories, decisions
// taken from the relation TLC exports from Quota.tla.
func quotaThroughNIP11(run *core.Run, conc *abs.Conc, nHist, length int, purpose string) {
	qrel := map[string]quotaEdge{}
	res, err := tlcrun.Run(tlcrun.Options{Module: "Quota", Config: "Quota.cfg", Workers: 1, Timeout: 10 * time.Minute,
		OnJSON: func(line string) {
			var e quotaEdge
			if json.Unmarshal([]byte(line), &e) == nil {
				qrel[fmt.Sprintf("%d|%s|%s|%s", e.N, setKey(e.S), e.A, e.X)] = e
			}
		}})
	if err != nil || !res.OK || len(qrel) == 0 {
		run.Problem("TLC failed on Quota: %v", err)
		return
	}
	run.Add("states", res.Distinct)
	run.Add("transitions", res.Generated)
	actions := []string{"REQ a", "REQ b", "REQ c", "REQ d", "CLOSE a", "CLOSE b", "CLOSE c", "REQX a", "REQX b", "REQX d"}
	for n := 1; n <= 3; n++ {
		h := mocrelay.BuildMiddlewareFromNIP11(&mocrelay.NIP11{Limitation: &mocrelay.NIP11Limitation{MaxSubscriptions: n, MaxFilters: 2, MaxLimit: 100}})(echoHandler{conc})
		r := run.Rand(fmt.Sprint(purpose, n))
		for i := 0; i < nHist; i++ {
			ss := newStepSession(h)
			open := []string{}
			var p []string
			for k := 0; k < length; k++ {
				a := actions[r.Intn(len(actions))]
				p = append(p, a)
				parts := strings.SplitN(a, " ", 2)
				fwd, err := quotaStep(ss, parts[0], parts[1])
				run.Add("sessions", 1)
				e, ok := qrel[fmt.Sprintf("%d|%s|%s|%s", n, setKey(open), parts[0], parts[1])]
				if !ok {
					run.Problem("state not in the exported Quota relation: %v", open)
					break
				}
				if err != nil || fwd != e.Fwd {
					run.Violate(fmt.Sprintf("nip11-quota:N=%d open=%d %s expected fwd=%v got fwd=%v err=%v", n, len(open), parts[0], e.Fwd, fwd, err != nil),
						fmt.Sprintf("NIP-11 chain max_subscriptions=%d max_filters=2: history %v step %d: specification forwards=%v, observed %v (%v)", n, p, k, e.Fwd, fwd, err),
						map[string]any{"n": n, "history": p})
					break
				}
				open = e.T
			}
			ss.close()
		}
	}
}
