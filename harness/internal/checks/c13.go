package checks

import (
	"context"
	"encoding/json"
	"fmt"
	"net/http/httptest"
	"runtime"
	"strings"
	"sync"
	"time"

	"github.com/coder/websocket"
	"github.com/high-moctane/mocrelay"
	mocsqlite "github.com/high-moctane/mocrelay/handler/sqlite"
	mocprom "github.com/high-moctane/mocrelay/middleware/prometheus"
	"github.com/prometheus/client_golang/prometheus"

	"verif/harness/internal/abs"
	"verif/harness/internal/core"
	"verif/harness/internal/tlcrun"
	"verif/harness/internal/tv"
)

var sessionTraceSpec = tv.Spec{Module: "SessionTrace", Config: "SessionTrace.cfg"}

// mocrelayGoroutines counts goroutines that run or were created by mocrelay code.
func mocrelayGoroutines() (int, string) {
	buf := make([]byte, 1<<20)
	for {
		n := runtime.Stack(buf, true)
		if n < len(buf) {
			buf = buf[:n]
			break
		}
		buf = make([]byte, 2*len(buf))
	}
	cnt := 0
	var sample string
	for _, st := range strings.Split(string(buf), "\n\n") {
		hit := false
		for _, ln := range strings.Split(st, "\n") {
			if strings.HasPrefix(ln, "github.com/high-moctane/mocrelay") || strings.HasPrefix(ln, "created by github.com/high-moctane/mocrelay") {
				hit = true
				break
			}
		}
		if hit {
			cnt++
			sample = st
		}
	}
	return cnt, sample
}

type composition struct {
	name    string
	h       mocrelay.Handler
	router  *mocrelay.RouterHandler
	reg     *prometheus.Registry
	cleanup func()
}

func buildComposition(name string, stack int) (*composition, error) {
	c := &composition{name: name, cleanup: func() {}}
	var cleanups []func()
	mkSQL := func() (mocrelay.Handler, error) {
		st, err := openMemSQL()
		if err != nil {
			return nil, err
		}
		ctx, cancel := context.WithCancel(context.Background())
		h, err := mocsqlite.NewSQLiteHandler(ctx, st.db, &mocsqlite.SQLiteHandlerOption{EventBulkInsertNum: 2, EventBulkInsertDur: time.Hour, MaxLimit: mocsqlite.NoLimit})
		if err != nil {
			cancel()
			return nil, err
		}
		cleanups = append(cleanups, func() { cancel(); time.Sleep(10 * time.Millisecond); st.Close() })
		return h, nil
	}
	router := func() mocrelay.Handler { c.router = mocrelay.NewRouterHandler(2); return c.router }
	var err error
	switch name {
	case "default":
		c.h = mocrelay.NewDefaultHandler()
	case "cache":
		c.h = mocrelay.NewCacheHandler(10)
	case "router":
		c.h = router()
	case "sqlite":
		c.h, err = mkSQL()
	case "merge2":
		c.h = mocrelay.NewMergeHandler(mocrelay.NewCacheHandler(10), router())
	case "merge3":
		var s mocrelay.Handler
		s, err = mkSQL()
		if err == nil {
			c.h = mocrelay.NewMergeHandler(mocrelay.NewCacheHandler(10), router(), s)
		}
	}
	if err != nil {
		return nil, err
	}
	switch stack {
	case 1:
		c.h = mocrelay.Middleware(mocrelay.NewMaxSubscriptionsMiddleware(2))(c.h)
		c.name += "+maxsubs"
	case 2:
		c.reg = prometheus.NewRegistry()
		c.h = mocrelay.Middleware(mocrelay.NewRecvEventUniqueFilterMiddleware(4))(c.h)
		c.h = mocrelay.Middleware(mocrelay.NewSendEventUniqueFilterMiddleware(4))(c.h)
		c.h = mocrelay.Middleware(mocrelay.NewMaxLimitMiddleware(100))(c.h)
		c.h = mocrelay.Middleware(mocprom.NewPrometheusMiddleware(c.reg))(c.h)
		c.name += "+prom+unique+maxlimit"
	}
	c.cleanup = func() {
		for _, f := range cleanups {
			f()
		}
	}
	return c, nil
}

func gauges(reg *prometheus.Registry) (conn, req int64) {
	if reg == nil {
		return 0, 0
	}
	l, err := gatherLine(reg)
	if err != nil {
		return -1, -1
	}
	return l["conn"].(int64), l["req"].(int64)
}

// sessionCut runs the first `cut` messages of the history, then ends the session.
func sessionCut(c *composition, hist []mocrelay.ClientMsg, cut int, ending, peer string) map[string]any {
	base, _ := mocrelayGoroutines()
	conn0, req0 := gauges(c.reg)
	ctx, cancel := context.WithCancel(context.Background())
	send := make(chan mocrelay.ServerMsg)
	recv := make(chan mocrelay.ClientMsg)
	done := make(chan error, 1)
	go func() { done <- c.h.ServeNostr(ctx, send, recv) }()
	stopReader := make(chan struct{})
	var rwg sync.WaitGroup
	if peer == "draining" {
		rwg.Add(1)
		go func() {
			defer rwg.Done()
			for {
				select {
				case <-send:
				case <-stopReader:
					return
				}
			}
		}()
	}
	fed := 0
	for i := 0; i < cut && i < len(hist); i++ {
		select {
		case recv <- hist[i]:
			fed++
		case <-time.After(300 * time.Millisecond): // with a stalled peer the session stops taking input: that is fine
			i = cut
		}
	}
	if peer == "draining" {
		time.Sleep(200 * time.Microsecond)
	}
	t0 := time.Now()
	if ending == "cancel" {
		cancel()
	} else {
		close(recv)
	}
	returned := false
	select {
	case <-done:
		returned = true
	case <-time.After(2 * time.Second):
	}
	retIn := time.Since(t0)
	cancel()
	left, sample := 0, ""
	deadline := time.Now().Add(2 * time.Second)
	for {
		n, s := mocrelayGoroutines()
		left, sample = n-base, s
		if left <= 0 || time.Now().After(deadline) {
			break
		}
		time.Sleep(2 * time.Millisecond)
	}
	if left < 0 {
		left = 0
	}
	close(stopReader)
	rwg.Wait()
	regConns, regSubs := 0, 0
	if c.router != nil {
		for i := 0; i < 200; i++ {
			regConns, regSubs = registrySize(c.router)
			if regConns == 0 && regSubs == 0 {
				break
			}
			time.Sleep(2 * time.Millisecond)
		}
	}
	conn1, req1 := gauges(c.reg)
	line := map[string]any{"op": "session", "comp": c.name, "cut": cut, "fed": fed, "ending": ending, "peer": peer,
		"returned": returned, "return_ms": retIn.Milliseconds(), "goroutines_left": left, "registry_conns": regConns, "registry_subs": regSubs,
		"gauge_conn_delta": conn1 - conn0, "gauge_req_delta": req1 - req0,
		"shape": fmt.Sprintf("%s ending=%s peer=%s", c.name, ending, peer)}
	if left > 0 {
		line["leaked_goroutine"] = sample
	}
	return line
}

// C13: sessions terminate and release everything.
func C13(run *core.Run) {
	run.Level = "fault_enumeration"
	// (1) the model: termination of every composition under both endings and peers
	comps := []string{"mw", "router", "merge", "mwmerge"}
	for _, comp := range comps {
		for _, peer := range []string{"draining", "stalled"} {
			for _, ending := range []string{"cancel", "close"} {
				if peer == "stalled" && ending == "close" {
					continue // the property claims the close ending only while output is being drained
				}
				cfg := fmt.Sprintf("SessionMC_%s_%s_%s.cfg", comp, peer, ending)
				res, err := tlcrun.Run(tlcrun.Options{Module: "SessionMC", Config: cfg, Workers: 4, Timeout: 10 * time.Minute})
				if err != nil || !res.OK {
					tail := ""
					if res != nil {
						tail = res.Tail
					}
					run.Problem("TLC: Session model %s does not satisfy Termination (model error, not a verdict on the code): %v\n%s", cfg, err, tail)
					continue
				}
				run.Add("states", res.Distinct)
				run.Add("transitions", res.Generated)
			}
		}
	}
	// non-vacuity: a stage that sends without watching the context must violate Termination
	if res, err := tlcrun.Run(tlcrun.Options{Module: "SessionMC", Config: "SessionMC_mw_stalled_cancel.cfg", Workers: 4, Timeout: 5 * time.Minute,
		Consts: map[string]string{"Bare": "TRUE"}}); err != nil || res.OK || !res.PropertyViolated {
		run.Problem("the bare-send variant of the Session model does not violate Termination: the liveness check is vacuous")
	} else {
		run.Add("model_witnesses", 1)
	}

	// (2) the real code: every composition x middleware stack x cut point x ending x peer
	conc := abs.NewConc()
	mkHist := func(tag string) []mocrelay.ClientMsg {
		ev := func(i int, kind int64) *mocrelay.Event {
			return conc.Event(abs.Event{ID: fmt.Sprintf("c13_%s_%d", tag, i), Author: "a", Kind: kind, TS: int64(i + 1)}, "x")
		}
		lim := int64(5)
		return []mocrelay.ClientMsg{
			&mocrelay.ClientReqMsg{SubscriptionID: "s1", ReqFilters: []*mocrelay.ReqFilter{{}}},
			&mocrelay.ClientEventMsg{Event: ev(1, 1)},
			&mocrelay.ClientEventMsg{Event: ev(2, 1)},
			&mocrelay.ClientReqMsg{SubscriptionID: "s2", ReqFilters: []*mocrelay.ReqFilter{{Limit: &lim}}},
			&mocrelay.ClientEventMsg{Event: ev(3, 30000)},
			&mocrelay.ClientCountMsg{SubscriptionID: "c", ReqFilters: []*mocrelay.ReqFilter{{}}},
			&mocrelay.ClientEventMsg{Event: ev(4, 1)},
			&mocrelay.ClientCloseMsg{SubscriptionID: "s1"},
			&mocrelay.ClientEventMsg{Event: ev(5, 5)},
			&mocrelay.ClientCloseMsg{SubscriptionID: "s1"},    // a repeated CLOSE
			&mocrelay.ClientCloseMsg{SubscriptionID: "never"}, // a CLOSE of an id that was never opened
			&mocrelay.ClientReqMsg{SubscriptionID: "s3", ReqFilters: []*mocrelay.ReqFilter{{}}},
			// a CLOSE right behind its REQ (it crosses the handler's answer) and a re-REQ of an open id
			&mocrelay.ClientReqMsg{SubscriptionID: "s4", ReqFilters: []*mocrelay.ReqFilter{{}}},
			&mocrelay.ClientCloseMsg{SubscriptionID: "s4"},
			&mocrelay.ClientReqMsg{SubscriptionID: "s3", ReqFilters: []*mocrelay.ReqFilter{{}}},
		}
	}
	// the same messages in two more orders (which one a composition gets depends on the seed): started
	// in the middle with an AUTH and a three-filter COUNT in front, and block-wise reversed
	base := mkHist
	mkHist = func(tag string) []mocrelay.ClientMsg {
		h := base(tag)
		switch (int(run.Seed) + len(tag)) % 3 {
		case 1:
			auth := &mocrelay.ClientAuthMsg{Event: conc.Event(abs.Event{ID: "c13_auth_" + tag, Author: "a", Kind: 22242, TS: 1}, "")}
			cnt := &mocrelay.ClientCountMsg{SubscriptionID: "c3", ReqFilters: []*mocrelay.ReqFilter{{}, {}, {}}}
			h = append([]mocrelay.ClientMsg{auth, cnt}, append(append([]mocrelay.ClientMsg{}, h[6:]...), h[:6]...)...)
		case 2:
			var r []mocrelay.ClientMsg
			for i := len(h); i > 0; i -= 3 {
				lo := i - 3
				if lo < 0 {
					lo = 0
				}
				r = append(r, h[lo:i]...)
			}
			h = r
		}
		return h
	}
	names := []string{"default", "cache", "router", "sqlite", "merge2", "merge3"}
	stacks := []int{0, 1, 2}
	if !run.Thorough() {
		stacks = []int{0, 2}
	}
	distinct := core.NewDistinct()
	var lines []any
	for _, name := range names {
		for _, stack := range stacks {
			for _, mode := range [][2]string{{"cancel", "draining"}, {"cancel", "stalled"}, {"close", "draining"}} {
				c, err := buildComposition(name, stack)
				if err != nil {
					run.Problem("cannot build %s: %v", name, err)
					continue
				}
				hist := mkHist(fmt.Sprintf("%s%d%s%s", name, stack, mode[0], mode[1]))
				for cut := 0; cut <= len(hist); cut++ {
					line := sessionCut(c, hist, cut, mode[0], mode[1])
					lines = append(lines, line)
					run.Add("sessions", 1)
					distinct.Add(fmt.Sprintf("%s|%d|%s|%s", c.name, cut, mode[0], mode[1]))
					if line["returned"] != true {
						break // the composition is stuck; later cuts would only wait again
					}
				}
				c.cleanup()
			}
		}
	}
	// several sessions on one router: a subscriber whose peer has stalled, publishers that keep
	// publishing matching events; cancelling the stalled session must end it promptly
	for round := 0; round < 3; round++ {
		line := routerStalledSubscriberCut(conc, round)
		lines = append(lines, line)
		run.Add("sessions", 1)
		distinct.Add(fmt.Sprint("router-multi", round))
	}
	// an SQLite session whose insert queue is full because the database is busy: cancel must still end it
	for round := 0; round < 2; round++ {
		line, err := sqliteBusyCut(conc, round)
		if err != nil {
			run.Problem("sqlite busy scenario: %v", err)
			continue
		}
		lines = append(lines, line)
		run.Add("sessions", 1)
		distinct.Add(fmt.Sprint("sqlite-busy", round))
	}
	var traces []tv.Trace
	for i, l := range lines {
		traces = append(traces, tv.Trace{Name: fmt.Sprintf("cut-%d", i), Lines: []any{l}})
	}
	out, err := tv.Validate(sessionTraceSpec, nil, traces, 8)
	if out != nil {
		run.Add("traces_validated_against_impl", int64(out.Accepted+len(out.Rejects)))
	}
	if err != nil {
		run.Problem("SessionTrace validation failed to run: %v", err)
	} else {
		for _, rj := range out.Rejects {
			m := rj.Line.(map[string]any)
			what := "goroutines left behind"
			switch {
			case m["returned"] != true:
				what = "ServeNostr did not return within 2s"
			case m["goroutines_left"].(int) > 0:
				what = "goroutines left behind"
			case m["registry_conns"].(int) > 0 || m["registry_subs"].(int) > 0:
				what = "router registry not empty"
			default:
				what = "gauges not back"
			}
			b, _ := json.Marshal(rj.Line)
			run.Violate(fmt.Sprintf("session:%s:%s", m["shape"], what), trunc(b), map[string]any{"session": rj.Line})
		}
		if len(lines) > 0 {
			run.Sample(lines[len(lines)/2])
			c := map[string]any{"op": "session", "returned": true, "goroutines_left": 1, "registry_conns": 0, "registry_subs": 0, "gauge_conn_delta": 0, "gauge_req_delta": 0}
			if rej, err := tv.Rejects(sessionTraceSpec, nil, tv.Trace{Name: "canary", Lines: []any{c}}); err != nil {
				run.Problem("canary failed to run: %v", err)
			} else if !rej {
				run.Problem("canary (leaked goroutine) accepted by SessionTrace")
			} else {
				run.Add("canaries_rejected", 1)
			}
		}
	}
	// (3) WebSocket: a peer that stops reading is dropped after the send timeout, whatever the ping setting
	for _, ping := range []time.Duration{0, 50 * time.Millisecond, 10 * time.Second} {
		ended, detail := wsStalledPeer(300*time.Millisecond, ping)
		run.Add("websocket_runs", 1)
		distinct.Add(fmt.Sprint("ws", ping))
		if !ended {
			run.Violate(fmt.Sprintf("websocket:stalled peer not dropped (ping=%v)", ping), detail, map[string]any{"send_timeout_ms": 300, "ping": ping.String()})
		}
	}
	// the same for the relay's own replies: the handler is silent, the peer never reads but keeps sending
	// frames the gate refuses (each is answered with a NOTICE); the blocked write is then a NOTICE
	for _, ping := range []time.Duration{0, 10 * time.Second} {
		ended, detail := wsStalledPeerRejected(300*time.Millisecond, ping)
		run.Add("websocket_runs", 1)
		distinct.Add(fmt.Sprint("ws-notice", ping))
		if !ended {
			run.Violate(fmt.Sprintf("websocket:stalled peer not dropped while the relay answers refused frames (ping=%v)", ping), detail, map[string]any{"send_timeout_ms": 300, "ping": ping.String()})
		}
	}
	// and for short replies of the handler (EOSE / CLOSED / COUNT to a flood of short requests, small kernel buffers)
	for _, ping := range []time.Duration{0, 200 * time.Millisecond} {
		ended, detail := wsStalledPeerShortReplies(300*time.Millisecond, ping)
		run.Add("websocket_runs", 1)
		distinct.Add(fmt.Sprint("ws-short", ping))
		if !ended {
			run.Violate(fmt.Sprintf("websocket:stalled peer not dropped while every reply is a short frame (ping=%v)", ping), detail, map[string]any{"send_timeout_ms": 300, "ping": ping.String()})
		}
	}
	run.Set("rule", "Session.tla models every goroutine as a stage (wait for a message or the context; hand it on with a select on the context) and the compositions as stage graphs; TLC proves Termination ((cancelled or closed) leads to all stages done, under weak fairness) for middleware(handler), router, merge of two children and middleware(merge), with a draining and with a stalled peer, ended by cancel and by closing the inbound channel, and shows that a stage sending without the context violates it. On the real code every composition (default, cache, router, SQLite, merge of 2 and of 3, bare and under middleware stacks incl. Prometheus + unique filters) runs a 9-message history cut at every position, ended by cancel (draining and stalled peer) or by closing recv (draining): ServeNostr returns within 2 s, the goroutines created by mocrelay are gone, the router registry is empty, the gauges are back; each observation is one line judged by TLC (SessionTrace). WebSocket: a client that never reads, a handler emitting 64 KiB messages, SendTimeout 300 ms, ping 0 / 50 ms / 10 s: the handler's context must end within 5 s; the same with a silent handler and a flood of refused frames (long NOTICE replies) and with the default handler and a flood of short requests over 4 KiB kernel buffers (every reply a short frame). distinct_nontrivial = distinct (composition, cut, ending, peer) cases")
	run.Set("evaluations", run.Get("sessions")+run.Get("websocket_runs"))
	run.Set("distinct_nontrivial", distinct.Len())
	run.Assume = append(run.Assume, "liveness is proved of the model only; on the code 'promptly' is the bounded-time observation (2 s) at each enumerated cut",
		"goroutines are attributed to mocrelay by their stack frames / creation site (runtime.Stack)")
}

// wsStalledPeer: over real TCP, the client stops reading; the handler keeps emitting.
func wsStalledPeer(sendTimeout, ping time.Duration) (bool, string) {
	ended := make(chan struct{})
	var once sync.Once
	h := mocrelay.HandlerFunc(func(ctx context.Context, send chan<- mocrelay.ServerMsg, recv <-chan mocrelay.ClientMsg) error {
		defer once.Do(func() { close(ended) })
		big := strings.Repeat("x", 64*1024)
		for {
			select {
			case <-ctx.Done():
				return ctx.Err()
			case send <- mocrelay.NewServerNoticeMsg(big):
			}
		}
	})
	opt := mocrelay.NewDefaultRelayOption()
	opt.SendTimeout = sendTimeout
	opt.PingDuration = ping
	opt.RecvRateLimitRate = 1e9
	opt.RecvRateLimitBurst = 1 << 30
	relay := mocrelay.NewRelay(h, opt)
	srv := httptest.NewServer(relay)
	defer srv.Close()
	ctx, cancel := context.WithTimeout(context.Background(), 20*time.Second)
	defer cancel()
	conn, _, err := websocket.Dial(ctx, "ws"+strings.TrimPrefix(srv.URL, "http"), nil)
	if err != nil {
		return false, "dial: " + err.Error()
	}
	defer conn.CloseNow()
	// never read
	start := time.Now()
	select {
	case <-ended:
		return true, ""
	case <-time.After(5 * time.Second):
		return false, fmt.Sprintf("SendTimeout %v, PingDuration %v: the handler's session was still running %v after the peer stopped reading", sendTimeout, ping, time.Since(start).Round(time.Millisecond))
	}
}

func routerStalledSubscriberCut(conc *abs.Conc, round int) map[string]any {
	router := mocrelay.NewRouterHandler(2)
	base, _ := mocrelayGoroutines()
	type sess struct {
		cancel context.CancelFunc
		send   chan mocrelay.ServerMsg
		recv   chan mocrelay.ClientMsg
		done   chan error
	}
	mk := func() *sess {
		ctx, cancel := context.WithCancel(context.Background())
		s := &sess{cancel: cancel, send: make(chan mocrelay.ServerMsg), recv: make(chan mocrelay.ClientMsg), done: make(chan error, 1)}
		go func() { s.done <- router.ServeNostr(ctx, s.send, s.recv) }()
		return s
	}
	a := mk() // the subscriber; its peer reads the EOSE and then nothing more
	a.recv <- &mocrelay.ClientReqMsg{SubscriptionID: "all", ReqFilters: []*mocrelay.ReqFilter{{}}}
	<-a.send
	var pubs []*sess
	stop := make(chan struct{})
	var wg sync.WaitGroup
	for p := 0; p < 3+round; p++ {
		s := mk()
		pubs = append(pubs, s)
		wg.Add(2)
		go func() { // draining peer
			defer wg.Done()
			for {
				select {
				case <-s.send:
				case <-stop:
					return
				}
			}
		}()
		go func(p int) {
			defer wg.Done()
			for i := 0; i < 8; i++ {
				e := conc.Event(abs.Event{ID: fmt.Sprintf("c13m_%d_%d_%d", round, p, i), Author: "a", Kind: 1, TS: int64(i + 1)}, "x")
				select {
				case s.recv <- &mocrelay.ClientEventMsg{Event: e}:
				case <-stop:
					return
				case <-time.After(500 * time.Millisecond):
					return
				}
			}
		}(p)
	}
	time.Sleep(30 * time.Millisecond)
	t0 := time.Now()
	a.cancel()
	returned := false
	select {
	case <-a.done:
		returned = true
	case <-time.After(2 * time.Second):
	}
	retIn := time.Since(t0)
	close(stop)
	for _, s := range pubs {
		s.cancel()
	}
	for _, s := range pubs {
		select {
		case <-s.done:
		case <-time.After(2 * time.Second):
			returned = false
		}
	}
	wg.Wait()
	left := 0
	deadline := time.Now().Add(2 * time.Second)
	for {
		n, _ := mocrelayGoroutines()
		left = n - base
		if left <= 0 || time.Now().After(deadline) {
			break
		}
		time.Sleep(2 * time.Millisecond)
	}
	if left < 0 {
		left = 0
	}
	rc, rs := registrySize(router)
	return map[string]any{"op": "session", "comp": "router x" + fmt.Sprint(len(pubs)+1), "cut": 0, "fed": 0, "ending": "cancel", "peer": "stalled",
		"returned": returned, "return_ms": retIn.Milliseconds(), "goroutines_left": left, "registry_conns": rc, "registry_subs": rs,
		"gauge_conn_delta": 0, "gauge_req_delta": 0, "shape": "router: stalled subscriber cancelled while others publish"}
}

// registrySize reads the router's registry through the verif hook. The hook takes the
// registry's read locks; if a lock is never released (a session that hangs while holding
// it) the registry counts as not released: -1 entries, which no model behaviour explains.
func registrySize(r *mocrelay.RouterHandler) (int, int) {
	type res struct{ c, s int }
	ch := make(chan res, 1)
	go func() {
		c, s := mocrelay.VerifRouterRegistrySize(r)
		ch <- res{c, s}
	}()
	select {
	case v := <-ch:
		return v.c, v.s
	case <-time.After(3 * time.Second):
		return -1, -1
	}
}

// sqliteBusyCut: the database's only connection is held, so the bulk inserter is stalled and the
// insert queue (2 x EventBulkInsertNum) fills up while a client keeps publishing; the session is
// then cancelled.
func sqliteBusyCut(conc *abs.Conc, round int) (map[string]any, error) {
	st, err := openMemSQL()
	if err != nil {
		return nil, err
	}
	hctx, hcancel := context.WithCancel(context.Background())
	defer func() { hcancel(); time.Sleep(5 * time.Millisecond); st.Close() }()
	h, err := mocsqlite.NewSQLiteHandler(hctx, st.db, &mocsqlite.SQLiteHandlerOption{EventBulkInsertNum: 1 + round, EventBulkInsertDur: time.Hour, MaxLimit: mocsqlite.NoLimit})
	if err != nil {
		return nil, err
	}
	conn, err := st.db.Conn(hctx)
	if err != nil {
		return nil, err
	}
	released := false
	release := func() {
		if !released {
			released = true
			conn.Close()
		}
	}
	defer release()
	time.Sleep(2 * time.Millisecond)
	base, _ := mocrelayGoroutines()
	ctx, cancel := context.WithCancel(context.Background())
	defer cancel()
	send := make(chan mocrelay.ServerMsg)
	recv := make(chan mocrelay.ClientMsg)
	done := make(chan error, 1)
	go func() { done <- h.ServeNostr(ctx, send, recv) }()
	stop := make(chan struct{})
	var wg sync.WaitGroup
	wg.Add(2)
	go func() { // draining peer
		defer wg.Done()
		for {
			select {
			case <-send:
			case <-stop:
				return
			}
		}
	}()
	fed := 0
	go func() {
		defer wg.Done()
		for i := 0; i < 10; i++ {
			e := conc.Event(abs.Event{ID: fmt.Sprintf("c13busy_%d_%d", round, i), Author: "a", Kind: 1, TS: int64(i + 1)}, "x")
			select {
			case recv <- &mocrelay.ClientEventMsg{Event: e}:
				fed++
			case <-stop:
				return
			case <-time.After(3 * time.Second):
				return
			}
		}
	}()
	time.Sleep(150 * time.Millisecond)
	t0 := time.Now()
	cancel()
	returned := true
	select {
	case <-done:
	case <-time.After(2 * time.Second):
		returned = false
	}
	retIn := time.Since(t0)
	close(stop)
	wg.Wait()
	release()
	left := 0
	deadline := time.Now().Add(2 * time.Second)
	for {
		n, _ := mocrelayGoroutines()
		left = n - base
		if left <= 0 || time.Now().After(deadline) {
			break
		}
		time.Sleep(2 * time.Millisecond)
	}
	if left < 0 {
		left = 0
	}
	return map[string]any{"op": "session", "comp": "sqlite (database busy)", "cut": 0, "fed": fed, "ending": "cancel", "peer": "draining",
		"returned": returned, "return_ms": retIn.Milliseconds(), "goroutines_left": left, "registry_conns": 0, "registry_subs": 0,
		"gauge_conn_delta": 0, "gauge_req_delta": 0, "shape": "sqlite: session cancelled while the insert queue is full"}, nil
}

// wsStalledPeerRejected: the client never reads and floods the relay with frames that the gate refuses
// (a REQ with an invalid kind and a long subscription id, echoed in the NOTICE); the handler emits nothing.
func wsStalledPeerRejected(sendTimeout, ping time.Duration) (bool, string) {
	ended := make(chan struct{})
	var once sync.Once
	h := mocrelay.HandlerFunc(func(ctx context.Context, send chan<- mocrelay.ServerMsg, recv <-chan mocrelay.ClientMsg) error {
		defer once.Do(func() { close(ended) })
		for {
			select {
			case <-ctx.Done():
				return ctx.Err()
			case _, ok := <-recv:
				if !ok {
					return mocrelay.ErrRecvClosed
				}
			}
		}
	})
	opt := mocrelay.NewDefaultRelayOption()
	opt.SendTimeout = sendTimeout
	opt.PingDuration = ping
	opt.RecvRateLimitRate = 1e9
	opt.RecvRateLimitBurst = 1 << 30
	srv := httptest.NewServer(mocrelay.NewRelay(h, opt))
	defer srv.Close()
	ctx, cancel := context.WithTimeout(context.Background(), 30*time.Second)
	defer cancel()
	conn, _, err := websocket.Dial(ctx, "ws"+strings.TrimPrefix(srv.URL, "http"), nil)
	if err != nil {
		return false, "dial: " + err.Error()
	}
	defer conn.CloseNow()
	frame := []byte(`["REQ","` + strings.Repeat("s", 16*1024) + `",{"kinds":[-1]}]`)
	start := time.Now()
	sent := 0
	go func() {
		// (no deadline on the client's writes: a write that is given up closes the connection, and it is
		// the relay that has to end this session)
		for ctx.Err() == nil {
			if err := conn.Write(ctx, websocket.MessageText, frame); err != nil {
				return
			}
			sent++
		}
	}()
	select {
	case <-ended:
		return true, ""
	case <-time.After(12 * time.Second):
		return false, fmt.Sprintf("SendTimeout %v, PingDuration %v: the session was still running %v after the peer stopped reading (%d refused frames sent)", sendTimeout, ping, time.Since(start).Round(time.Millisecond), sent)
	}
}
