package checks

import (
	"bytes"
	"crypto/sha256"
	"encoding/hex"
	"encoding/json"
	"fmt"
	"math/rand"
	"strconv"
	"strings"
	"sync"
	"time"
	"unicode/utf8"

	"github.com/high-moctane/mocrelay"

	"verif/harness/internal/abs"
	"verif/harness/internal/core"
	"verif/harness/internal/tlcrun"
)

type canonRange struct {
	Name string `json:"name"`
	Lo   int    `json:"lo"`
	Hi   int    `json:"hi"`
	Rule string `json:"rule"`
	Arg  string `json:"arg"`
}

type canonTable struct{ ranges []canonRange }

func (t *canonTable) find(cp rune) *canonRange {
	for i := range t.ranges {
		if int(cp) >= t.ranges[i].Lo && int(cp) <= t.ranges[i].Hi {
			return &t.ranges[i]
		}
	}
	return nil
}

// escape writes s as a JSON string using only the rules of the exported table.
func (t *canonTable) escape(b *bytes.Buffer, s string) {
	b.WriteByte('"')
	for _, cp := range s {
		r := t.find(cp)
		switch {
		case r == nil:
			b.WriteString("?")
		case r.Rule == "short":
			b.WriteByte('\\')
			b.WriteString(r.Arg)
		case r.Rule == "u00":
			fmt.Fprintf(b, `\u%04x`, cp)
		default:
			b.WriteRune(cp)
		}
	}
	b.WriteByte('"')
}

func (t *canonTable) canonical(pub string, ts, kind int64, tags []mocrelay.Tag, content string) []byte {
	var b bytes.Buffer
	b.WriteString("[0,")
	t.escape(&b, pub)
	b.WriteString("," + strconv.FormatInt(ts, 10) + "," + strconv.FormatInt(kind, 10) + ",[")
	for i, tg := range tags {
		if i > 0 {
			b.WriteByte(',')
		}
		b.WriteByte('[')
		for j, s := range tg {
			if j > 0 {
				b.WriteByte(',')
			}
			t.escape(&b, s)
		}
		b.WriteByte(']')
	}
	b.WriteString("],")
	t.escape(&b, content)
	b.WriteByte(']')
	return b.Bytes()
}

// members returns concrete code points of a class: every member of small
// classes, boundaries + seeded samples of large ones.
func (t *canonTable) members(name string, r *rand.Rand, n int) []rune {
	var out []rune
	for _, rg := range t.ranges {
		if rg.Name != name {
			continue
		}
		size := rg.Hi - rg.Lo + 1
		if size <= 40 {
			for cp := rg.Lo; cp <= rg.Hi; cp++ {
				out = append(out, rune(cp))
			}
			continue
		}
		out = append(out, rune(rg.Lo), rune(rg.Hi))
		for i := 0; i < n; i++ {
			out = append(out, rune(rg.Lo+r.Intn(size)))
		}
	}
	return out
}

// upperOneHexLetter puts the first hex letter at or after pos (cyclically) in upper case.
func upperOneHexLetter(s string, pos int) string {
	b := []byte(s)
	for k := 0; k < len(b); k++ {
		i := (pos + k) % len(b)
		if b[i] >= 'a' && b[i] <= 'f' {
			b[i] -= 'a' - 'A'
			return string(b)
		}
	}
	return s
}

func flipHexBit(s string, pos int) string {
	b := []byte(s)
	i := pos % len(b)
	v, _ := strconv.ParseUint(string(b[i]), 16, 8)
	b[i] = "0123456789abcdef"[v^1]
	return string(b)
}

// C01: event authenticity.
func C01(run *core.Run) {
	run.Level = "exploration"
	maxLen := 2
	if run.Thorough() {
		maxLen = 3
	}
	tbl := &canonTable{}
	type ccase struct {
		Content []string        `json:"content"`
		Shape   string          `json:"shape"`
		Tampers map[string]bool `json:"tampers"`
	}
	var cases []ccase
	res, err := tlcrun.Run(tlcrun.Options{
		Module: "Canon", Config: "Canon.cfg", Workers: 1, Timeout: 20 * time.Minute,
		Consts: map[string]string{"MaxLen": fmt.Sprint(maxLen)},
		OnJSON: func(line string) {
			var t struct {
				Ranges []canonRange `json:"ranges"`
				ccase
			}
			if err := json.Unmarshal([]byte(line), &t); err != nil {
				run.Problem("bad export line: %v", err)
				return
			}
			if t.Ranges != nil {
				tbl.ranges = t.Ranges
				return
			}
			cases = append(cases, t.ccase)
		},
	})
	if err != nil || !res.OK || len(tbl.ranges) == 0 {
		tail := ""
		if res != nil {
			tail = res.Tail
		}
		run.Problem("TLC failed on Canon: %v\n%s", err, tail)
		return
	}
	run.Set("states", res.Distinct)
	run.Set("transitions", res.Generated)
	r := run.Rand("c01")
	conc := abs.NewConc()
	distinct := core.NewDistinct()
	authors := []string{"a", "b", "c", "d"}
	inst := func(classes []string) string {
		var sb strings.Builder
		for _, c := range classes {
			m := tbl.members(c, r, 6)
			sb.WriteRune(m[r.Intn(len(m))])
		}
		return sb.String()
	}
	checkOne := func(author string, ts, kind int64, tags []mocrelay.Tag, content string, tampers map[string]bool, label string) {
		pub := conc.Pubkey(author)
		want := tbl.canonical(pub, ts, kind, tags, content)
		ev := conc.SignRaw(author, ts, kind, tags, content) // signs abs.Canonical, independent of mocrelay
		h := sha256.Sum256(want)
		if hex.EncodeToString(h[:]) != ev.ID {
			run.Problem("harness canonical writer disagrees with the Canon.tla table for %q", content)
			return
		}
		run.Add("events_checked", 1)
		got, err := ev.Serialize()
		if err != nil || !bytes.Equal(got, want) {
			run.Violate("serialize:"+label, fmt.Sprintf("content %q tags %q: Serialize = %s (err %v), NIP-01 canonical form = %s", content, tags, got, err, want),
				map[string]any{"content": content, "tags": tags, "canonical": string(want)})
		}
		ok, err := ev.Verify()
		if !ok || err != nil {
			run.Violate("verify-rejects-authentic:"+label, fmt.Sprintf("correctly signed event (content %q tags %q) reported not authentic (%v, %v)", content, tags, ok, err),
				map[string]any{"event": ev})
		}
		if tampers == nil {
			return
		}
		otherAuthor := authors[0]
		if otherAuthor == author {
			otherAuthor = authors[1]
		}
		other := conc.SignRaw(otherAuthor, ts+7, kind, tags, content+"x") // always a different key
		for name, authentic := range tampers {
			if name == "none" {
				continue
			}
			t := *ev
			t.Tags = append([]mocrelay.Tag{}, ev.Tags...)
			switch name {
			case "content":
				t.Content = ev.Content + "!"
			case "tagvalue":
				if len(t.Tags) == 0 || len(t.Tags[0]) < 2 {
					continue
				}
				t.Tags[0] = mocrelay.Tag{t.Tags[0][0], t.Tags[0][1] + "x"}
			case "tagadd":
				t.Tags = append(t.Tags, mocrelay.Tag{"t"})
			case "kind":
				t.Kind++
			case "created_at":
				t.CreatedAt++
			case "pubkey":
				t.Pubkey = other.Pubkey
			case "id-bit":
				t.ID = flipHexBit(ev.ID, r.Intn(64))
			case "sig-bit":
				t.Sig = flipHexBit(ev.Sig, r.Intn(128))
			case "sig-other":
				t.Sig = other.Sig
			case "id-other":
				t.ID = other.ID
			case "content-reid":
				// a forgery: other content, the id recomputed for it, the genuine event's signature
				t.Content = ev.Content + "?"
				h := sha256.Sum256(tbl.canonical(t.Pubkey, t.CreatedAt, t.Kind, t.Tags, t.Content))
				t.ID = hex.EncodeToString(h[:])
			case "pubkey-reid":
				t.Pubkey = other.Pubkey
				h := sha256.Sum256(tbl.canonical(t.Pubkey, t.CreatedAt, t.Kind, t.Tags, t.Content))
				t.ID = hex.EncodeToString(h[:])
			case "id-trunc":
				if !strings.HasSuffix(ev.ID, "00") {
					continue // exercised by the dedicated search below
				}
				t.ID = strings.TrimRight(ev.ID, "0")
				if len(t.ID)%2 == 1 {
					t.ID += "0"
				}
			case "offcurve-reid":
				t.Pubkey = offCurvePubkey()
				h := sha256.Sum256(tbl.canonical(t.Pubkey, t.CreatedAt, t.Kind, t.Tags, t.Content))
				t.ID = hex.EncodeToString(h[:])
			case "id-case":
				t.ID = upperOneHexLetter(ev.ID, r.Intn(64))
				if t.ID == ev.ID {
					continue
				}
			case "sig-case":
				t.Sig = upperOneHexLetter(ev.Sig, r.Intn(128))
				if t.Sig == ev.Sig {
					continue
				}
			}
			run.Add("tampers_checked", 1)
			ok, err := t.Verify()
			if name == "id-case" || name == "sig-case" {
				// Canon!Lexical: judged by the admission verdict Valid /\ Verify
				ok = ok && t.Valid()
			}
			// authentic: (true, nil); not authentic: the verdict itself must be false, whatever the error says
			if (authentic && !(ok && err == nil)) || (!authentic && ok) {
				run.Violate("verify-accepts-tampered:"+name, fmt.Sprintf("event with tampered %s reported authentic=(%v,%v), Canon says %v: %+v", name, ok, err, authentic, t),
					map[string]any{"original": ev, "tampered": t})
			}
		}
	}
	perCase := 1
	if run.Thorough() {
		perCase = 2
	}
	for i, c := range cases {
		for k := 0; k < perCase; k++ {
			content := inst(c.Content)
			val := inst(c.Content)
			var tags []mocrelay.Tag
			switch c.Shape {
			case "none":
				tags = []mocrelay.Tag{}
			case "one":
				tags = []mocrelay.Tag{{"t", val}}
			case "three":
				tags = []mocrelay.Tag{{"e", val, inst(c.Content)}}
			case "emptyval":
				tags = []mocrelay.Tag{{"t", ""}, {"x"}}
			case "two-tags":
				tags = []mocrelay.Tag{{"t", val}, {"p", content}}
			case "name":
				tags = []mocrelay.Tag{{val, "v"}, {"t", "x"}}
			case "name-only":
				tags = []mocrelay.Tag{{val}}
			}
			kind := []int64{1, 0, 5, 30000, 20000, 65535}[r.Intn(6)]
			ts := []int64{0, 1, 1700000000, 4294967296, 9007199254740993}[r.Intn(5)]
			var tampers map[string]bool
			if k == 0 && (i%4 == 0 || run.Thorough()) {
				tampers = c.Tampers
			}
			label := strings.Join(c.Content, "+")
			if len(c.Content) > 1 {
				label = "multi"
			}
			distinct.Add(strings.Join(c.Content, ",") + "/" + c.Shape)
			checkOne(authors[i%len(authors)], ts, kind, tags, content, tampers, label+"/"+c.Shape)
		}
	}
	run.Sample(map[string]any{"abstract_case": cases[len(cases)/2]})
	// every member of every small class and, thorough, every Unicode scalar value
	var cps []rune
	if run.Thorough() {
		for cp := rune(0); cp <= 0x10FFFF; cp++ {
			if cp >= 0xD800 && cp <= 0xDFFF {
				continue
			}
			cps = append(cps, cp)
		}
	} else {
		seen := map[string]bool{}
		for _, rg := range tbl.ranges {
			if !seen[rg.Name] {
				seen[rg.Name] = true
				cps = append(cps, tbl.members(rg.Name, r, 150)...)
			}
		}
	}
	var wg sync.WaitGroup
	chunk := (len(cps) + 15) / 16
	for w := 0; w < 16; w++ {
		lo, hi := w*chunk, min((w+1)*chunk, len(cps))
		if lo >= hi {
			continue
		}
		wg.Add(1)
		go func(part []rune, w int) {
			defer wg.Done()
			for _, cp := range part {
				if !utf8.ValidRune(cp) {
					continue
				}
				s := string(cp)
				cl := tbl.find(cp).Name
				checkOne(authors[w%4], 1700000000, 1, []mocrelay.Tag{{"t", "v" + s}}, "c"+s+"c", nil, cl+"/single")
				run.Add("code_points_checked", 1)
			}
		}(cps[lo:hi], w)
	}
	wg.Wait()
	// a genuine signature over the hash of a NON-canonical serialisation (encoding/json's default escaping
	// of < > & U+2028 U+2029, \u007f for DEL, a space after separators, the fields as an object) is not authentic
	{
		n := 0
		for _, content := range []string{"a<b", "x>y&z", "line\u2028sep\u2029", "del\x7f", "plain"} {
			tags := []mocrelay.Tag{{"t", "<tag>"}}
			forms := map[string]func(pub string) []byte{
				"json.Marshal escaping": func(pub string) []byte {
					b, _ := json.Marshal([]any{0, pub, int64(1700000000), int64(1), tags, content})
					return b
				},
				"spaces after separators": func(pub string) []byte {
					return bytes.ReplaceAll(tbl.canonical(pub, 1700000000, 1, tags, content), []byte(","), []byte(", "))
				},
				"upper-case unicode escapes": func(pub string) []byte {
					b, _ := json.Marshal([]any{0, pub, int64(1700000000), int64(1), tags, content})
					return bytes.ReplaceAll(bytes.ReplaceAll(b, []byte("\\u003c"), []byte("\\u003C")), []byte("\\u003e"), []byte("\\u003E"))
				},
			}
			for name, ser := range forms {
				canon := tbl.canonical(conc.SignRaw(authors[0], 1700000000, 1, tags, content).Pubkey, 1700000000, 1, tags, content)
				ev := conc.SignOver(authors[0], 1700000000, 1, tags, content, ser)
				if bytes.Equal(ser(ev.Pubkey), canon) {
					continue // for this content the form coincides with the canonical one
				}
				n++
				run.Add("tampers_checked", 1)
				if ok, _ := ev.Verify(); ok {
					run.Violate("verify-accepts-noncanonical-id:"+name, fmt.Sprintf("id %s is the hash of a non-canonical serialisation (%s) of content %q, genuinely signed: reported authentic", ev.ID, name, content),
						map[string]any{"event": ev, "form": name})
				}
			}
		}
		if n == 0 {
			run.Problem("no non-canonical form differed from the canonical one")
		}
	}
	// an id whose trailing zero bytes are cut off (or that is padded with zero bytes) is another id
	{
		found := 0
		for ts := int64(1700000000); ts < 1700000000+20000 && found < 3; ts++ {
			ev := conc.SignRaw(authors[int(ts)%len(authors)], ts, 1, nil, "zero tail")
			if !strings.HasSuffix(ev.ID, "00") {
				continue
			}
			found++
			for _, alt := range []string{ev.ID[:62], strings.TrimRight(ev.ID, "0"), ev.ID + "00", "00" + ev.ID[:62]} {
				if len(alt)%2 == 1 {
					alt += "0"
				}
				if alt == ev.ID {
					continue
				}
				t := *ev
				t.ID = alt
				run.Add("tampers_checked", 1)
				if ok, _ := t.Verify(); ok {
					run.Violate("verify-accepts-tampered:id-trunc", fmt.Sprintf("id %s altered to %s is still reported authentic", ev.ID, alt), map[string]any{"original": ev, "tampered": t})
				}
			}
		}
		if found == 0 {
			run.Problem("no event id with a zero tail found in 20000 signatures")
		}
		// the same for the signature (its two halves are two 32-byte numbers)
		foundSig := 0
		for ts := int64(1800000000); ts < 1800000000+20000 && foundSig < 3; ts++ {
			ev := conc.SignRaw(authors[int(ts)%len(authors)], ts, 1, nil, "zero tail sig")
			if !strings.HasSuffix(ev.Sig, "00") {
				continue
			}
			foundSig++
			for _, alt := range []string{ev.Sig[:126], ev.Sig + "00", "00" + ev.Sig[:126]} {
				t := *ev
				t.Sig = alt
				run.Add("tampers_checked", 1)
				if ok, _ := t.Verify(); ok {
					run.Violate("verify-accepts-tampered:sig-trunc", fmt.Sprintf("sig %s altered to %s is still reported authentic", ev.Sig, alt), map[string]any{"original": ev, "tampered": t})
				}
			}
		}
		if foundSig == 0 {
			run.Problem("no signature with a zero tail found in 20000 signatures")
		}
	}
	// verification is a pure function of the event: many sessions verifying large events at the same
	// moment (the relay verifies on every connection's read loop) must all get the same verdict
	{
		var big []*mocrelay.Event
		var tampered []*mocrelay.Event
		for i := 0; i < 6; i++ {
			var sb strings.Builder
			for sb.Len() < 40000+i*9000 {
				for _, rg := range tbl.ranges {
					for _, cp := range tbl.members(rg.Name, r, 2) {
						if utf8.ValidRune(cp) {
							sb.WriteRune(cp)
						}
					}
				}
			}
			ev := conc.SignRaw(authors[i%len(authors)], 1700000000+int64(i), 1, []mocrelay.Tag{{"t", fmt.Sprint("big", i)}}, sb.String())
			big = append(big, ev)
			t := *ev
			t.Content = ev.Content[:len(ev.Content)-1] + "!"
			tampered = append(tampered, &t)
		}
		var mu sync.Mutex
		bad := ""
		var wg2 sync.WaitGroup
		reps := 12
		if run.Thorough() {
			reps = 120
		}
		for g := 0; g < 16; g++ {
			wg2.Add(1)
			go func(g int) {
				defer wg2.Done()
				for rep := 0; rep < reps; rep++ {
					for k := range big {
						j := (k + g) % len(big)
						ok, err := big[j].Verify()
						ok2, _ := tampered[j].Verify()
						if !ok || err != nil || ok2 {
							mu.Lock()
							bad = fmt.Sprintf("event %d (content %d bytes): genuine reported (%v,%v), tampered reported %v", j, len(big[j].Content), ok, err, ok2)
							mu.Unlock()
							return
						}
					}
				}
			}(g)
		}
		wg2.Wait()
		run.Add("concurrent_verifications", int64(16*reps*len(big)*2))
		if bad != "" {
			run.Violate("verify-concurrent", "16 goroutines verifying large events concurrently: "+bad, map[string]any{"detail": bad})
		}
	}
	run.Set("rule", "(16 concurrent verifiers over large events must all agree with the sequential verdict.) Canon.tla holds the escape table (26 ranges partitioning the Unicode scalar values, checked by TLC) and generates every class string up to MaxLen x 5 tag shapes x 10 tamper operators with the verdict idOK /\\ sigOK; each case is instantiated with concrete code points (all members of small classes, boundaries + samples of large ones), canonical bytes are built from the exported table, hashed, really signed with BIP-340, and compared with Event.Serialize / Event.Verify; each tamper must make Verify report not-authentic. Plus one event per code point (quick: all small-class members + samples; thorough: every Unicode scalar value) in content and in a tag value. distinct_nontrivial = distinct (class string, tag shape) cases")
	run.Set("evaluations", run.Get("events_checked")+run.Get("tampers_checked"))
	run.Set("distinct_nontrivial", distinct.Len())
	run.Assume = append(run.Assume, "SHA-256 and BIP-340 (btcec/schnorr) are trusted oracles", "only well-formed UTF-8 strings are generated")
}
