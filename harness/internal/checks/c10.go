package checks

import (
	"bytes"
	"encoding/json"
	"fmt"
	"math/rand"
	"reflect"
	"strings"
	"sync"

	"github.com/high-moctane/mocrelay"

	"verif/harness/internal/abs"
	"verif/harness/internal/core"
)

type decTarget struct {
	name   string
	fresh  func() any
	filled func(v any) string // "" when completely filled
}

func evFilled(e *mocrelay.Event) string {
	if e == nil {
		return "nil Event"
	}
	if e.Tags == nil {
		return "nil Tags"
	}
	for _, t := range e.Tags {
		if t == nil {
			return "nil Tag"
		}
	}
	return ""
}

func filtersFilled(fs []*mocrelay.ReqFilter) string {
	if fs == nil {
		return "nil filter list"
	}
	for _, f := range fs {
		if f == nil {
			return "nil filter"
		}
	}
	return ""
}

var decTargets = []decTarget{
	{"ClientEventMsg", func() any { return new(mocrelay.ClientEventMsg) }, func(v any) string { return evFilled(v.(*mocrelay.ClientEventMsg).Event) }},
	{"ClientReqMsg", func() any { return new(mocrelay.ClientReqMsg) }, func(v any) string { return filtersFilled(v.(*mocrelay.ClientReqMsg).ReqFilters) }},
	{"ClientCloseMsg", func() any { return new(mocrelay.ClientCloseMsg) }, func(v any) string { return "" }},
	{"ClientAuthMsg", func() any { return new(mocrelay.ClientAuthMsg) }, func(v any) string { return evFilled(v.(*mocrelay.ClientAuthMsg).Event) }},
	{"ClientCountMsg", func() any { return new(mocrelay.ClientCountMsg) }, func(v any) string { return filtersFilled(v.(*mocrelay.ClientCountMsg).ReqFilters) }},
	{"ServerEOSEMsg", func() any { return new(mocrelay.ServerEOSEMsg) }, func(v any) string { return "" }},
	{"ServerEventMsg", func() any { return new(mocrelay.ServerEventMsg) }, func(v any) string { return evFilled(v.(*mocrelay.ServerEventMsg).Event) }},
	{"ServerNoticeMsg", func() any { return new(mocrelay.ServerNoticeMsg) }, func(v any) string { return "" }},
	{"ServerOKMsg", func() any { return new(mocrelay.ServerOKMsg) }, func(v any) string { return "" }},
	{"ServerAuthMsg", func() any { return new(mocrelay.ServerAuthMsg) }, func(v any) string { return "" }},
	{"ServerCountMsg", func() any { return new(mocrelay.ServerCountMsg) }, func(v any) string { return "" }},
	{"ServerClosedMsg", func() any { return new(mocrelay.ServerClosedMsg) }, func(v any) string { return "" }},
	{"Event", func() any { return new(mocrelay.Event) }, func(v any) string { return evFilled(v.(*mocrelay.Event)) }},
	{"ReqFilter", func() any { return new(mocrelay.ReqFilter) }, func(v any) string { return "" }},
}

func isNullText(b []byte) bool { return string(bytes.TrimSpace(b)) == "null" }

// decodeAll decodes text as every type; no panic, success => filled, and
// decode(encode(decode(t))) = decode(t).
func decodeAll(run *core.Run, text []byte, origin string) (successes int) {
	for _, tg := range decTargets {
		func() {
			defer func() {
				if p := recover(); p != nil {
					run.Violate("panic:"+tg.name+":"+origin, fmt.Sprintf("decoding %q as %s panicked: %v", trunc(text), tg.name, p), map[string]any{"text": string(text), "type": tg.name})
				}
			}()
			v := tg.fresh()
			run.Add("decodes", 1)
			if err := json.Unmarshal(text, v); err != nil {
				return
			}
			if isNullText(text) {
				return // JSON null leaves the value untouched (Go convention): not claimed
			}
			successes++
			if s := tg.filled(v); s != "" {
				run.Violate("unfilled:"+tg.name+":"+s, fmt.Sprintf("%q decodes as %s without error but with %s", trunc(text), tg.name, s), map[string]any{"text": string(text), "type": tg.name})
				return
			}
			enc, err := json.Marshal(v)
			if err != nil {
				run.Violate("reencode-error:"+tg.name, fmt.Sprintf("%q decoded as %s cannot be encoded: %v", trunc(text), tg.name, err), map[string]any{"text": string(text)})
				return
			}
			v2 := tg.fresh()
			if err := json.Unmarshal(enc, v2); err != nil {
				run.Violate("redecode-error:"+tg.name, fmt.Sprintf("%q -> %s -> %s does not decode: %v", trunc(text), tg.name, enc, err), map[string]any{"text": string(text), "encoded": string(enc)})
				return
			}
			if !reflect.DeepEqual(v, v2) {
				run.Violate("roundtrip-differs:"+tg.name, fmt.Sprintf("decode(%q) = %+v but decode(encode(.)) = %+v (encoded %s)", trunc(text), v, v2, enc), map[string]any{"text": string(text), "encoded": string(enc)})
			}
		}()
	}
	func() {
		defer func() {
			if p := recover(); p != nil {
				run.Violate("panic:ParseClientMsg:"+origin, fmt.Sprintf("ParseClientMsg(%q) panicked: %v", trunc(text), p), map[string]any{"text": string(text)})
			}
		}()
		m, err := mocrelay.ParseClientMsg(text)
		run.Add("decodes", 1)
		if err != nil {
			return
		}
		successes++
		bad := ""
		switch m := m.(type) {
		case nil:
			bad = "nil message"
		case *mocrelay.ClientEventMsg:
			if m == nil {
				bad = "nil message"
			} else {
				bad = evFilled(m.Event)
			}
		case *mocrelay.ClientAuthMsg:
			if m == nil {
				bad = "nil message"
			} else {
				bad = evFilled(m.Event)
			}
		case *mocrelay.ClientReqMsg:
			bad = filtersFilled(m.ReqFilters)
		case *mocrelay.ClientCountMsg:
			bad = filtersFilled(m.ReqFilters)
		}
		if bad != "" {
			run.Violate("unfilled:ParseClientMsg:"+bad, fmt.Sprintf("ParseClientMsg(%q) succeeds with %s", trunc(text), bad), map[string]any{"text": string(text)})
		}
	}()
	return
}

func trunc(b []byte) string {
	if len(b) > 300 {
		return string(b[:300]) + "…"
	}
	return string(b)
}

func strClass(c string) string {
	return map[string]string{"empty": "", "ascii": "hello world", "unicode": "日本😀<>&  é", "escapes": "a\"b\\c\n\t\u0001\u007f"}[c]
}

func prefixOf(c string) string {
	return map[string]string{"none": "", "duplicate": mocrelay.MachineReadablePrefixDuplicate, "blocked": mocrelay.MachineReadablePrefixBlocked,
		"error": mocrelay.MachineReadablePrefixError, "invalid": mocrelay.MachineReadablePrefixInvalid, "pow": mocrelay.MachineReadablePrefixPoW,
		"ratelimited": mocrelay.MachineReadablePrefixRateLimited, "lookalike": "", "doubled": mocrelay.MachineReadablePrefixError}[c]
}

// serverValue builds the well-formed value of a server case.
func serverValue(c srvCase, ev *mocrelay.Event) (v any, fresh func() any) {
	s := strClass(c.Str)
	msg := s
	if c.Prefix == "lookalike" {
		msg = "duplicate:" + s // no space: not a machine-readable prefix
	}
	if c.Prefix == "doubled" {
		msg = "error: " + s // the free text itself starts with the prefix
	}
	switch c.Type {
	case "OK":
		return mocrelay.NewServerOKMsg(ev.ID, c.Acc, prefixOf(c.Prefix), msg), func() any { return new(mocrelay.ServerOKMsg) }
	case "CLOSED":
		return mocrelay.NewServerClosedMsg(s, prefixOf(c.Prefix), msg), func() any { return new(mocrelay.ServerClosedMsg) }
	case "COUNT":
		cnt := map[string]uint64{"zero": 0, "small": 42, "big53": 9007199254740993, "max63": 9223372036854775807}[c.Count]
		var ap *bool
		if c.Approx != "absent" {
			b := c.Approx == "true"
			ap = &b
		}
		return mocrelay.NewServerCountMsg(s, cnt, ap), func() any { return new(mocrelay.ServerCountMsg) }
	case "EVENT":
		e := *ev
		e.Content = s
		return mocrelay.NewServerEventMsg(s, &e), func() any { return new(mocrelay.ServerEventMsg) }
	case "EOSE":
		return mocrelay.NewServerEOSEMsg(s), func() any { return new(mocrelay.ServerEOSEMsg) }
	case "NOTICE":
		return mocrelay.NewServerNoticeMsg(s), func() any { return new(mocrelay.ServerNoticeMsg) }
	case "AUTH":
		return &mocrelay.ServerAuthMsg{Challenge: s}, func() any { return new(mocrelay.ServerAuthMsg) }
	}
	return nil, nil
}

func mutateBytes(r *rand.Rand, text []byte) [][]byte {
	var out [][]byte
	n := len(text)
	if n == 0 {
		return nil
	}
	// truncations
	for i := 0; i < 4; i++ {
		out = append(out, append([]byte{}, text[:r.Intn(n)]...))
	}
	// trailing garbage, duplicated, wrapped
	out = append(out, append(append([]byte{}, text...), []byte(` x`)...))
	out = append(out, append(append([]byte{}, text...), text...))
	out = append(out, []byte("["+string(text)+"]"))
	// byte flips / deletions / insertions
	for i := 0; i < 6; i++ {
		m := append([]byte{}, text...)
		p := r.Intn(n)
		switch r.Intn(4) {
		case 0:
			m[p] = byte(r.Intn(256))
		case 1:
			m = append(m[:p], m[p+1:]...)
		case 2:
			ins := []string{`null`, `"`, `{`, `[`, `]`, `}`, `,`, `:`, `\`, "\xff", "\xc3", `1e999`, `-`, `0.5`, `99999999999999999999`, `true`, "\x00"}[r.Intn(17)]
			m = append(m[:p], append([]byte(ins), m[p:]...)...)
		case 3:
			// replace a token-ish run with null
			q := p + r.Intn(n-p)
			m = append(append(append([]byte{}, m[:p]...), []byte("null")...), m[q:]...)
		}
		out = append(out, m)
	}
	return out
}

// C10: wire codec.
func C10(run *core.Run) {
	run.Level = "exploration"
	cases, srv, ok := loadWire(run, false)
	if !ok {
		return
	}
	conc := abs.NewConc()
	w := newWireRender(conc)
	r := run.Rand("c10")
	distinct := core.NewDistinct()
	rounds := 3
	if run.Thorough() {
		rounds = 80
	}
	// (1) structured client texts and their byte-level mutations
	for i, c := range cases {
		text := []byte(w.render(c))
		n := decodeAll(run, text, "wire-case")
		distinct.Add(c.describe())
		if n > 0 {
			run.Add("texts_accepted_by_some_decoder", 1)
		}
		for k := 0; k < rounds; k++ {
			for _, m := range mutateBytes(r, text) {
				decodeAll(run, m, "byte-mutation")
				run.Add("mutations", 1)
			}
		}
		if i == 7 {
			run.Sample(map[string]any{"text": string(text), "decoders_accepting": n})
		}
	}
	// (2) server values: encode, decode, equal; texts and mutations through every decoder
	for i, c := range srv {
		v, fresh := serverValue(c, w.ev)
		if v == nil {
			continue
		}
		enc, err := json.Marshal(v)
		if err != nil {
			run.Violate("encode-error:"+c.Type, fmt.Sprintf("%+v: %v", v, err), map[string]any{"case": c})
			continue
		}
		v2 := fresh()
		if err := json.Unmarshal(enc, v2); err != nil {
			run.Violate("decode-error-on-own-encoding:"+c.Type, fmt.Sprintf("%s: %v", enc, err), map[string]any{"case": c, "encoded": string(enc)})
			continue
		}
		run.Add("values_roundtripped", 1)
		distinct.Add(fmt.Sprintf("srv %+v", c))
		equal := reflect.DeepEqual(v, v2)
		if !equal && c.Prefix == "lookalike" {
			equal = messageOf(v) == messageOf(v2)
		}
		if !equal {
			run.Violate("value-roundtrip-differs:"+c.Type+":"+c.Prefix+":"+c.Count+":"+c.Approx, fmt.Sprintf("%+v -> %s -> %+v", v, enc, v2), map[string]any{"case": c, "encoded": string(enc)})
		}
		decodeAll(run, enc, "server-text")
		for k := 0; k < rounds; k++ {
			for _, m := range mutateBytes(r, enc) {
				decodeAll(run, m, "byte-mutation")
				run.Add("mutations", 1)
			}
		}
		if i == 3 {
			run.Sample(map[string]any{"server_value": c, "encoded": string(enc)})
		}
	}
	// (3) client values built from generators: encode, decode, equal
	g := NewGen(r, "v")
	for i := 0; i < 300*rounds; i++ {
		var v, v2 any
		switch i % 5 {
		case 0:
			v, v2 = &mocrelay.ClientEventMsg{Event: conc.Event(g.Event(), randContent(r))}, new(mocrelay.ClientEventMsg)
		case 1:
			v, v2 = &mocrelay.ClientReqMsg{SubscriptionID: randContent(r), ReqFilters: conc.Filters(g.Filters())}, new(mocrelay.ClientReqMsg)
		case 2:
			v, v2 = &mocrelay.ClientCountMsg{SubscriptionID: randContent(r), ReqFilters: conc.Filters(g.Filters())}, new(mocrelay.ClientCountMsg)
		case 3:
			v, v2 = &mocrelay.ClientCloseMsg{SubscriptionID: randContent(r)}, new(mocrelay.ClientCloseMsg)
		case 4:
			v, v2 = &mocrelay.ClientAuthMsg{Event: conc.Event(g.Event(), randContent(r))}, new(mocrelay.ClientAuthMsg)
		}
		enc, err := json.Marshal(v)
		if err != nil {
			run.Violate(fmt.Sprintf("encode-error:%T", v), err.Error(), nil)
			continue
		}
		if err := json.Unmarshal(enc, v2); err != nil {
			run.Violate(fmt.Sprintf("decode-error-on-own-encoding:%T", v), fmt.Sprintf("%s: %v", enc, err), map[string]any{"encoded": string(enc)})
			continue
		}
		run.Add("values_roundtripped", 1)
		if !reflect.DeepEqual(v, v2) {
			run.Violate(fmt.Sprintf("value-roundtrip-differs:%T", v), fmt.Sprintf("%+v -> %s -> %+v", v, enc, v2), map[string]any{"encoded": string(enc)})
		}
		pm, err := mocrelay.ParseClientMsg(enc)
		if err != nil || !reflect.DeepEqual(pm, v) {
			run.Violate(fmt.Sprintf("ParseClientMsg-differs:%T", v), fmt.Sprintf("%s -> %+v (%v)", enc, pm, err), map[string]any{"encoded": string(enc)})
		}
	}
	// (3b) an encoding is a value: it does not change when something else is encoded afterwards, two
	// different values with the same event id encode differently, and concurrent encoders do not disturb
	// each other (the relay encodes on every connection's write loop)
	{
		type marshaler interface{ MarshalJSON() ([]byte, error) }
		mk := func(i int) (any, func() any) {
			e := conc.Event(g.Event(), randContent(r))
			switch i % 3 {
			case 0:
				return mocrelay.NewServerEventMsg("sub"+fmt.Sprint(i), e), func() any { return new(mocrelay.ServerEventMsg) }
			case 1:
				return &mocrelay.ClientEventMsg{Event: e}, func() any { return new(mocrelay.ClientEventMsg) }
			}
			return &mocrelay.ClientAuthMsg{Event: e}, func() any { return new(mocrelay.ClientAuthMsg) }
		}
		for i := 0; i < 60*rounds; i++ {
			v1, fresh1 := mk(i)
			v2, _ := mk(i) // same type, another event
			m1, ok1 := v1.(marshaler)
			m2, ok2 := v2.(marshaler)
			if !ok1 || !ok2 {
				continue
			}
			enc1, err := m1.MarshalJSON()
			if err != nil {
				continue
			}
			keep := append([]byte{}, enc1...)
			if _, err := m2.MarshalJSON(); err != nil {
				continue
			}
			run.Add("values_roundtripped", 1)
			if !bytes.Equal(keep, enc1) {
				run.Violate(fmt.Sprintf("encoding-changed-by-a-later-encode:%T", v1), fmt.Sprintf("MarshalJSON output %s became %s after another value was encoded", trunc(keep), trunc(enc1)), map[string]any{"first": string(keep)})
				break
			}
			back := fresh1()
			if err := json.Unmarshal(enc1, back); err != nil || !reflect.DeepEqual(back, v1) {
				run.Violate(fmt.Sprintf("value-roundtrip-differs:%T", v1), fmt.Sprintf("%s does not decode to the value it was encoded from (%v)", trunc(enc1), err), map[string]any{"encoded": string(enc1)})
				break
			}
		}
		// same id, different body (the id is a field like any other for the codec)
		for i := 0; i < 40*rounds; i++ {
			e := conc.Event(g.Event(), randContent(r))
			alt := *e
			alt.Content = e.Content + "~"
			alt.Tags = append(append([]mocrelay.Tag{}, e.Tags...), mocrelay.Tag{"t", "alt"})
			for k, pair := range [][2]any{
				{mocrelay.NewServerEventMsg("s", e), mocrelay.NewServerEventMsg("s", &alt)},
				{&mocrelay.ClientEventMsg{Event: e}, &mocrelay.ClientEventMsg{Event: &alt}},
				{e, &alt},
			} {
				if _, err := json.Marshal(pair[0]); err != nil {
					continue
				}
				enc, err := json.Marshal(pair[1])
				if err != nil {
					continue
				}
				var back any
				switch k {
				case 0:
					back = new(mocrelay.ServerEventMsg)
				case 1:
					back = new(mocrelay.ClientEventMsg)
				default:
					back = new(mocrelay.Event)
				}
				run.Add("values_roundtripped", 1)
				if err := json.Unmarshal(enc, back); err != nil || !reflect.DeepEqual(back, pair[1]) {
					run.Violate(fmt.Sprintf("value-roundtrip-differs-after-same-id:%T", pair[1]), fmt.Sprintf("a value encoded right after another one with the same event id: %s (%v)", trunc(enc), err), map[string]any{"encoded": string(enc)})
				}
			}
			if run.Violations() > 0 {
				break
			}
		}
		// concurrent encoders
		var big []*mocrelay.ServerEventMsg
		for i := 0; i < 8; i++ {
			e := conc.Event(g.Event(), strings.Repeat(fmt.Sprintf("%d-%s ", i, randContent(r)), 1500))
			big = append(big, mocrelay.NewServerEventMsg(fmt.Sprint("c", i), e))
		}
		var wg sync.WaitGroup
		var mu sync.Mutex
		bad := ""
		for gi := 0; gi < 8; gi++ {
			wg.Add(1)
			go func(gi int) {
				defer wg.Done()
				for rep := 0; rep < 25*rounds; rep++ {
					v := big[(gi+rep)%len(big)]
					enc, err := json.Marshal(v)
					back := new(mocrelay.ServerEventMsg)
					if err == nil {
						err = json.Unmarshal(enc, back)
					}
					if err != nil || !reflect.DeepEqual(back, v) {
						mu.Lock()
						bad = fmt.Sprintf("sub %s: %v", v.SubscriptionID, err)
						mu.Unlock()
						return
					}
				}
			}(gi)
		}
		wg.Wait()
		run.Add("values_roundtripped", int64(8*25*rounds))
		if bad != "" {
			run.Violate("value-roundtrip-differs-concurrent:ServerEventMsg", "8 goroutines encoding and decoding large EVENT messages: "+bad, map[string]any{"detail": bad})
		}
	}
	// (4) hostile shapes: deep nesting, huge numbers, random bytes, invalid UTF-8
	hostile := [][]byte{
		[]byte(strings.Repeat("[", 100000)),
		[]byte(strings.Repeat("[", 5000) + strings.Repeat("]", 5000)),
		[]byte(`["EVENT",` + strings.Repeat(`{"a":`, 5000) + `1` + strings.Repeat(`}`, 5000) + `]`),
		[]byte(`["REQ","s",{"limit":1e400}]`), []byte(`["REQ","s",{"limit":99999999999999999999}]`), []byte(`["REQ","s",{"since":-0}]`),
		[]byte(`["COUNT","s",{"count":18446744073709551616}]`), []byte(`["COUNT","s",{"count":-1}]`), []byte(`["COUNT","s",{"count":1,"x":2}]`),
		[]byte(`["OK","id",1,"x"]`), []byte(`["OK","id",true]`), []byte(`["EVENT"]`), []byte(`["EVENT",{}]`), []byte(`["EVENT","s"]`), []byte(`["REQ"]`), []byte(`["REQ","s"]`),
		[]byte(`["EVENT",{"id":"x","id":"y"}]`), []byte(`[]`), []byte(`[[]]`), []byte(`{}`), []byte(`""`), []byte(``), []byte(`["CLOSE",null]`), []byte(`["CLOSE",["x"]]`),
		[]byte("[\"NOTICE\",\"\xff\xfe\"]"), []byte("[\"EVENT\xff\",{}]"), []byte(`["EVENT", {"tags":[null]}]`), []byte(`["EVENT", {"tags":[[null]]}]`),
		[]byte(`["REQ","s",{"#e":null}]`), []byte(`["REQ","s",{"kinds":[null]}]`), []byte(`["REQ","s",{"ids":[null]}]`), []byte(`["AUTH",null]`), []byte(`["AUTH"]`),
	}
	for i := 0; i < 300*rounds; i++ {
		b := make([]byte, r.Intn(40))
		r.Read(b)
		hostile = append(hostile, b)
	}
	for _, h := range hostile {
		decodeAll(run, h, "hostile")
		run.Add("hostile_inputs", 1)
	}
	run.Set("rule", "structured inputs come from Wire.tla (every baseline / ok variant / single-point corruption of the 5 client message types, 4 string classes x prefixes x counts x approximate for the 7 server types); each text, ~13 byte-level mutations of it per round (truncation, trailing garbage, nesting, byte flips, inserted tokens such as null / huge numbers / invalid UTF-8), generator-built client values, and hostile shapes (100k-deep nesting, overflow numbers, random bytes) are decoded as all 14 types and by ParseClientMsg under recover: no panic, success => completely filled, decode-encode-decode stable; every well-formed value round-trips to an equal value. distinct_nontrivial = distinct structured cases")
	run.Set("evaluations", run.Get("decodes"))
	run.Set("distinct_nontrivial", distinct.Len())
	run.Assume = append(run.Assume, "'for all byte strings' is sampled inside model-defined classes (model-based generation, not coverage-guided fuzzing)",
		"the bare text null leaves a value untouched (Go convention) and is not claimed", "OK/CLOSED values whose free text merely looks like a prefix are compared by their message text")
}

func messageOf(v any) string {
	switch m := v.(type) {
	case *mocrelay.ServerOKMsg:
		return fmt.Sprint(m.EventID, m.Accepted, m.Message())
	case *mocrelay.ServerClosedMsg:
		return fmt.Sprint(m.SubscriptionID, m.Message())
	}
	return fmt.Sprintf("%+v", v)
}
