//go:build race

package checks

const raceEnabled = true
