package checks

import (
	"encoding/json"
	"fmt"
	"math"
	"reflect"
	"strings"
	"time"

	"github.com/high-moctane/mocrelay"

	"verif/harness/internal/abs"
	"verif/harness/internal/core"
	"verif/harness/internal/tlcrun"
	"verif/harness/internal/tv"
)

type limMw struct {
	K string `json:"k"`
	L int64  `json:"l"`
}
type limMsg struct {
	Type  string `json:"type"`
	NF    int    `json:"nf"`
	Lim   int64  `json:"lim"`
	SubL  int    `json:"subl"`
	NTags int    `json:"ntags"`
	CLen  int    `json:"clen"`
	Age   int64  `json:"age"`
}
type limBlock struct {
	Present  bool  `json:"present"`
	Upper    int64 `json:"upper"`
	Lower    int64 `json:"lower"`
	Content  int   `json:"content"`
	Tags     int   `json:"tags"`
	MaxLimit int   `json:"maxlimit"`
	Filters  int   `json:"filters"`
}
type limCase struct {
	Stack []limMw   `json:"stack"`
	Block *limBlock `json:"block"`
	M     limMsg    `json:"m"`
	D     string    `json:"d"`
}

func buildMw(w limMw) mocrelay.Middleware {
	switch w.K {
	case "maxfilters":
		return mocrelay.Middleware(mocrelay.NewMaxReqFiltersMiddleware(int(w.L)))
	case "maxlimit":
		return mocrelay.Middleware(mocrelay.NewMaxLimitMiddleware(int(w.L)))
	case "maxsubid":
		return mocrelay.Middleware(mocrelay.NewMaxSubIDLengthMiddleware(int(w.L)))
	case "maxtags":
		return mocrelay.Middleware(mocrelay.NewMaxEventTagsMiddleware(int(w.L)))
	case "maxcontent":
		return mocrelay.Middleware(mocrelay.NewMaxContentLengthMiddleware(int(w.L)))
	case "lower":
		return mocrelay.Middleware(mocrelay.NewCreatedAtLowerLimitMiddleware(w.L))
	case "upper":
		return mocrelay.Middleware(mocrelay.NewCreatedAtUpperLimitMiddleware(w.L))
	case "window0":
		return mocrelay.Middleware(mocrelay.NewEventCreatedAtMiddleware(-time.Duration(w.L)*time.Second, 0))
	}
	panic("unknown middleware " + w.K)
}

// stackOf nests the middlewares, outermost first.
func stackOf(mws []limMw, h mocrelay.Handler) mocrelay.Handler {
	for i := len(mws) - 1; i >= 0; i-- {
		h = buildMw(mws[i])(h)
	}
	return h
}

func concMsg(conc *abs.Conc, m limMsg, n int) mocrelay.ClientMsg {
	sub := strings.Repeat("s", m.SubL)
	mkEvent := func() *mocrelay.Event {
		ts := time.Now().Unix() - m.Age
		switch m.Age { // Limits!Extreme: the two ends of the int64 range
		case 2000000000:
			ts = math.MinInt64 + 1
		case -2000000000:
			ts = math.MaxInt64
		}
		e := conc.Event(abs.Event{ID: fmt.Sprintf("lim%d", n), Author: "a", Kind: 1, TS: ts}, strings.Repeat("c", m.CLen))
		e.Tags = []mocrelay.Tag{}
		for i := 0; i < m.NTags; i++ {
			e.Tags = append(e.Tags, mocrelay.Tag{"t", fmt.Sprint(i)})
		}
		return e
	}
	filters := func() []*mocrelay.ReqFilter {
		var fs []*mocrelay.ReqFilter
		for i := 0; i < m.NF; i++ {
			f := &mocrelay.ReqFilter{}
			if i == m.NF-1 && m.Lim >= 0 { // the offending limit sits in the last filter
				l := m.Lim
				f.Limit = &l
			} else if m.Lim >= 0 {
				one := int64(1)
				f.Limit = &one
			}
			fs = append(fs, f)
		}
		return fs
	}
	switch m.Type {
	case "EVENT":
		return &mocrelay.ClientEventMsg{Event: mkEvent()}
	case "AUTH":
		return &mocrelay.ClientAuthMsg{Event: mkEvent()}
	case "REQ":
		return &mocrelay.ClientReqMsg{SubscriptionID: sub, ReqFilters: filters()}
	case "COUNT":
		return &mocrelay.ClientCountMsg{SubscriptionID: sub, ReqFilters: filters()}
	default:
		return &mocrelay.ClientCloseMsg{SubscriptionID: sub}
	}
}

// mwSession runs inputs through h (a middleware stack around rec) and returns
// what the recording handler received and what the client got, attributed to
// handler emissions (by equality with the logged emission) or not.
type mwResult struct {
	down      []mocrelay.ClientMsg
	emitted   []mocrelay.ServerMsg
	fromDown  []mocrelay.ServerMsg // client-side messages equal to an emission, in arrival order
	other     []mocrelay.ServerMsg // everything else the client got (rejections)
	complete  bool
	sentinelR mocrelay.ServerMsg
}

func mwSession(wrap func(mocrelay.Handler) mocrelay.Handler, inputs []mocrelay.ClientMsg, emitPer int, ev *mocrelay.Event) *mwResult {
	rec := &recHandler{emitPlan: func(int) int { return emitPer }, ev: ev}
	h := wrap(rec)
	outs, complete := runSessionSentinel(h, inputs, 5*time.Second)
	res := &mwResult{complete: complete}
	rec.mu.Lock()
	defer rec.mu.Unlock()
	for _, m := range rec.received {
		if c, ok := m.(*mocrelay.ClientCountMsg); ok && c.SubscriptionID == mwSentinel {
			continue
		}
		res.down = append(res.down, m)
	}
	res.emitted = rec.emitted
	next := 0
	for _, o := range outs {
		if isSentinelReply(o) {
			res.sentinelR = o
			continue
		}
		if next < len(rec.emitted) && reflect.DeepEqual(o, rec.emitted[next]) {
			res.fromDown = append(res.fromDown, o)
			next++
			continue
		}
		res.other = append(res.other, o)
	}
	return res
}

// the sentinel of middleware sessions has a one-character subscription id, so
// that no subscription-id length limit rejects it
const mwSentinel = "z"

func isSentinelReply(m mocrelay.ServerMsg) bool {
	c, ok := m.(*mocrelay.ServerCountMsg)
	return ok && c.SubscriptionID == mwSentinel
}

func runSessionSentinel(h mocrelay.Handler, msgs []mocrelay.ClientMsg, timeout time.Duration) ([]mocrelay.ServerMsg, bool) {
	return runSessionWith(h, msgs, timeout, mwSentinel)
}

// C17: limit middlewares.
func C17(run *core.Run) {
	var cases []limCase
	res, err := tlcrun.Run(tlcrun.Options{Module: "Limits", Config: "Limits.cfg", Workers: 1, Timeout: 10 * time.Minute,
		OnJSON: func(line string) {
			var t struct {
				Single *limCase `json:"single"`
				Pair   *limCase `json:"pair"`
				Nip    *limCase `json:"nip"`
			}
			if err := json.Unmarshal([]byte(line), &t); err != nil {
				run.Problem("bad export line: %v", err)
				return
			}
			for _, c := range []*limCase{t.Single, t.Pair, t.Nip} {
				if c != nil {
					cases = append(cases, *c)
				}
			}
		}})
	if err != nil || !res.OK || len(cases) == 0 {
		tail := ""
		if res != nil {
			tail = res.Tail
		}
		run.Problem("TLC failed on Limits: %v\n%s", err, tail)
		return
	}
	run.Set("states", res.Distinct+int64(len(cases)))
	run.Set("transitions", res.Generated+int64(len(cases)))
	conc := abs.NewConc()
	ev := conc.SignRaw("a", 1700000000, 1, nil, "emitted")
	distinct := core.NewDistinct()
	r := run.Rand("c17")
	nipStride := 4
	if run.Thorough() {
		nipStride = 1
	}
	for i, c := range cases {
		if c.Block != nil && (i+int(run.Seed))%nipStride != 0 {
			continue
		}
		var wraps []struct {
			name string
			f    func(mocrelay.Handler) mocrelay.Handler
		}
		desc := ""
		if c.Block != nil {
			b := c.Block
			var doc *mocrelay.NIP11
			if b.Present {
				mml := 0
				if i%2 == 0 {
					mml = 1 // max_message_length is not enforced by the chain; it must not disturb the others
				}
				doc = &mocrelay.NIP11{Limitation: &mocrelay.NIP11Limitation{MaxMessageLength: mml, MaxFilters: b.Filters, MaxLimit: b.MaxLimit, MaxEventTags: b.Tags,
					MaxContentLength: b.Content, CreatedAtLowerLimit: b.Lower, CreatedAtUpperLimit: b.Upper}}
				desc = fmt.Sprintf("nip11{filters=%d,limit=%d,tags=%d,content=%d,lower=%d,upper=%d}", b.Filters, b.MaxLimit, b.Tags, b.Content, b.Lower, b.Upper)
			} else {
				doc = &mocrelay.NIP11{Name: "no limitation block"}
				desc = "nip11{no limitation block}"
				wraps = append(wraps, struct {
					name string
					f    func(mocrelay.Handler) mocrelay.Handler
				}{"nip11{nil document}", func(h mocrelay.Handler) mocrelay.Handler { return mocrelay.BuildMiddlewareFromNIP11(nil)(h) }})
			}
			d := doc
			wraps = append(wraps, struct {
				name string
				f    func(mocrelay.Handler) mocrelay.Handler
			}{desc, func(h mocrelay.Handler) mocrelay.Handler { return mocrelay.BuildMiddlewareFromNIP11(d)(h) }})
			if b.Present {
				// the same block with the limits the chain does not enforce set as well: they must not disturb the others
				d2 := *doc
				l2 := *doc.Limitation
				l2.MaxMessageLength = 1
				if d.Limitation.MaxMessageLength != 0 {
					l2.MaxMessageLength = 1 << 20
				}
				d2.Limitation = &l2
				wraps = append(wraps, struct {
					name string
					f    func(mocrelay.Handler) mocrelay.Handler
				}{desc + "+max_message_length", func(h mocrelay.Handler) mocrelay.Handler { return mocrelay.BuildMiddlewareFromNIP11(&d2)(h) }})
			}
			if b.Present && b.Lower == 60 && b.Upper == 60 && b.Filters == 0 && b.MaxLimit == 0 && b.Tags == 0 && b.Content == 0 {
				wraps = append(wraps, struct {
					name string
					f    func(mocrelay.Handler) mocrelay.Handler
				}{"eventcreatedat(-60s,60s)", func(h mocrelay.Handler) mocrelay.Handler {
					return mocrelay.Middleware(mocrelay.NewEventCreatedAtMiddleware(-60*time.Second, 60*time.Second))(h)
				}})
			}
		} else {
			st := c.Stack
			var names []string
			for _, w := range st {
				names = append(names, fmt.Sprintf("%s(%d)", w.K, w.L))
			}
			desc = strings.Join(names, ">")
			wraps = append(wraps, struct {
				name string
				f    func(mocrelay.Handler) mocrelay.Handler
			}{desc, func(h mocrelay.Handler) mocrelay.Handler { return stackOf(st, h) }})
		}
		for _, w := range wraps {
			msg := concMsg(conc, c.M, i)
			before := &mocrelay.ClientCloseMsg{SubscriptionID: "u"}
			after := &mocrelay.ClientAuthMsg{Event: conc.Event(abs.Event{ID: fmt.Sprintf("un%d", i), Author: "b", Kind: 22242, TS: time.Now().Unix()}, "")}
			inputs := []mocrelay.ClientMsg{before, msg, after}
			var result *mwResult
			panicked := func() (p any) {
				defer func() { p = recover() }()
				result = mwSession(w.f, inputs, 1+r.Intn(2), ev)
				return nil
			}()
			run.Add("sessions", 1)
			mdesc := fmt.Sprintf("%s nf=%d lim=%d subl=%d ntags=%d clen=%d age=%d", c.M.Type, c.M.NF, c.M.Lim, c.M.SubL, c.M.NTags, c.M.CLen, c.M.Age)
			if c.D != "fwd" {
				distinct.Add(w.name + "|" + mdesc)
			}
			if panicked != nil {
				run.Violate("panic:"+w.name, fmt.Sprintf("%s with %s panicked: %v", w.name, mdesc, panicked), map[string]any{"case": c})
				continue
			}
			sig := fmt.Sprintf("%s | %s | want=%s", w.name, mdesc, c.D)
			if !result.complete {
				run.Violate("stuck:"+sig, "no reply to the final sentinel within 5s", map[string]any{"case": c})
				continue
			}
			wantDown := []mocrelay.ClientMsg{before, msg, after}
			if c.D != "fwd" {
				wantDown = []mocrelay.ClientMsg{before, after}
			}
			if !reflect.DeepEqual(result.down, wantDown) {
				run.Violate("forwarding:"+sig, fmt.Sprintf("downstream received %d messages %s, expected %d", len(result.down), describeMsgs(result.down), len(wantDown)), map[string]any{"case": c})
				continue
			}
			if len(result.fromDown) != len(result.emitted) {
				run.Violate("server-messages:"+sig, fmt.Sprintf("handler emitted %d messages, client received %d of them in order", len(result.emitted), len(result.fromDown)), map[string]any{"case": c})
				continue
			}
			wantOther := 0
			if c.D != "fwd" {
				wantOther = 1
			}
			okRej := len(result.other) == wantOther
			if okRej && wantOther == 1 {
				switch rj := result.other[0].(type) {
				case *mocrelay.ServerOKMsg:
					em, isEv := msg.(*mocrelay.ClientEventMsg)
					okRej = c.D == "okfalse" && isEv && !rj.Accepted && rj.EventID == em.Event.ID
				case *mocrelay.ServerClosedMsg:
					okRej = c.D == "closed" && rj.SubscriptionID == strings.Repeat("s", c.M.SubL)
				default:
					okRej = false
				}
			}
			if !okRej {
				run.Violate("rejection:"+sig, fmt.Sprintf("client received %s besides the handler's messages", describeSrv(result.other)), map[string]any{"case": c})
			}
		}
		if i == 40 {
			run.Sample(map[string]any{"case": c})
		}
	}
	c17AllowDeny(run, conc, ev, distinct)
	// max_subscriptions of the NIP-11 chain (stateful: judged with the Quota specification)
	nh := 60
	if run.Thorough() {
		nh = 4000
	}
	quotaThroughNIP11(run, conc, nh, 7, "c17-quota")
	run.Set("rule", "Limits.tla defines Decide for the seven stateless limit middlewares, StackDecide for stacks and Chain for NIP-11 limitation blocks; TLC enumerates every middleware x limit {1,2,5} (times 60/3600 s) x message type x size below/at/above (timestamps +-5 s around the moving boundary), every ordered pair of four middlewares x messages violating none/one/both, and every subset of the six stateless NIP-11 limits (and no block, nil document) x messages (quick: a seeded quarter); each case runs through the real concurrent wrapper around a recording handler, the message embedded between two unrelated client messages while the handler emits server messages: downstream receives exactly the non-rejected messages unchanged, the client exactly the handler's messages in order plus one rejection of the right type and id. Allow/deny filters are judged by TLC (Nostr!MatchesAny). distinct_nontrivial = distinct rejecting cases")
	run.Set("evaluations", run.Get("sessions"))
	run.Set("distinct_nontrivial", distinct.Len())
	run.Assume = append(run.Assume, "created_at cases keep 5 s distance from the moving boundary", "max_subscriptions of the NIP-11 chain is judged with the Quota specification of C18 on sampled histories")
}

func describeMsgs(ms []mocrelay.ClientMsg) string {
	var s []string
	for _, m := range ms {
		s = append(s, m.ClientMsgLabel())
	}
	return fmt.Sprint(s)
}
func describeSrv(ms []mocrelay.ServerMsg) string {
	var s []string
	for _, m := range ms {
		b, _ := json.Marshal(m)
		s = append(s, string(b))
	}
	return fmt.Sprint(s)
}

// allow / deny filter middlewares: forwarded iff (not) MatchesAny, judged by TLC.
func c17AllowDeny(run *core.Run, conc *abs.Conc, ev *mocrelay.Event, distinct *core.DistinctSet) {
	r := run.Rand("c17-allow")
	n := 40
	if run.Thorough() {
		n = 3000
	}
	var traces []tv.Trace
	for t := 0; t < n; t++ {
		g := NewGen(r, fmt.Sprintf("al%d_", t))
		g.MaxTS = 6
		fs := g.Filters()
		matcher := mocrelay.NewReqFiltersEventLimitMatcher(conc.Filters(fs))
		deny := t%2 == 1
		var wrap func(mocrelay.Handler) mocrelay.Handler
		if deny {
			wrap = func(h mocrelay.Handler) mocrelay.Handler {
				return mocrelay.Middleware(mocrelay.NewRecvEventDenyFilterMiddleware(matcher))(h)
			}
		} else {
			wrap = func(h mocrelay.Handler) mocrelay.Handler {
				return mocrelay.Middleware(mocrelay.NewRecvEventAllowFilterMiddleware(matcher))(h)
			}
		}
		var inputs []mocrelay.ClientMsg
		var evs []abs.Event
		for i := 0; i < 8; i++ {
			e := g.Event()
			evs = append(evs, e)
			inputs = append(inputs, &mocrelay.ClientEventMsg{Event: conc.Event(e, "x")})
		}
		res := mwSession(wrap, inputs, 0, ev)
		if !res.complete {
			run.Violate("allowdeny:stuck", "no reply to the sentinel", nil)
			continue
		}
		fwd := map[string]bool{}
		for _, m := range res.down {
			if em, ok := m.(*mocrelay.ClientEventMsg); ok {
				fwd[conc.Label(em.Event.ID)] = true
			}
		}
		rejected := map[string]bool{}
		for _, o := range res.other {
			if ok, isOK := o.(*mocrelay.ServerOKMsg); isOK && !ok.Accepted {
				rejected[conc.Label(ok.EventID)] = true
			}
		}
		tr := tv.Trace{Name: fmt.Sprintf("allowdeny-%d", t)}
		tr.Lines = append(tr.Lines, map[string]any{"op": "reset", "fs": abs.NormFilters(fs)})
		for _, e := range evs {
			if fwd[e.ID] == rejected[e.ID] {
				run.Violate("allowdeny:forwarded-and-rejected-or-neither", fmt.Sprintf("event %s forwarded=%v rejected=%v", e.ID, fwd[e.ID], rejected[e.ID]), nil)
			}
			resv := fwd[e.ID]
			if deny {
				resv = !resv
			}
			tr.Lines = append(tr.Lines, map[string]any{"op": "match", "e": e, "res": resv, "shape": fmt.Sprintf("allowdeny deny=%v %s", deny, describeFilters(fs))})
			run.Add("sessions", 1)
		}
		distinct.Add(tr.Name)
		traces = append(traces, tr)
	}
	out, err := tv.ValidateChunks(matcherTraceSpec, nil, traces, 6, 300, 8)
	if out != nil {
		run.Add("traces_validated_against_impl", int64(out.Accepted+len(out.Rejects)))
	}
	if err != nil {
		run.Problem("allow/deny validation failed to run: %v", err)
		return
	}
	for _, rj := range out.Rejects {
		b, _ := json.Marshal(rj.Line)
		run.Violate("trace:"+lineShape(rj.Line), fmt.Sprintf("%s: %s", rj.Trace.Name, b), map[string]any{"trace": rj.Trace.Lines[:rj.LineIdx+1]})
	}
}
