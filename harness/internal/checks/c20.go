package checks

import (
	"bytes"
	"context"
	"encoding/json"
	"fmt"
	"io"
	"net/http"
	"net/http/httptest"
	"reflect"
	"strings"
	"time"

	"github.com/coder/websocket"
	"github.com/high-moctane/mocrelay"

	"verif/harness/internal/core"
	"verif/harness/internal/tlcrun"
)

type fdReq struct {
	Upgrade string `json:"upgrade"`
	Accept  string `json:"accept"`
	Origin  string `json:"origin"`
	Method  string `json:"method"`
	Doc     string `json:"doc"`
	Def     string `json:"def"`
	Outcome string `json:"outcome"`
}

type fdDoc struct {
	Fields []string `json:"fields"`
	Kinds  string   `json:"kinds"`
}

func ip(i int) *int { return &i }

func buildDoc(d fdDoc) *mocrelay.NIP11 {
	has := map[string]bool{}
	for _, f := range d.Fields {
		has[f] = true
	}
	var kinds []*mocrelay.Nip11Kind
	switch d.Kinds {
	case "single":
		kinds = []*mocrelay.Nip11Kind{{From: 4, To: 4}}
	case "pair":
		kinds = []*mocrelay.Nip11Kind{{From: 40, To: 49}}
	case "pair-equal":
		kinds = []*mocrelay.Nip11Kind{{From: 7, To: 7}, {From: 0, To: 0}}
	case "zero-bound":
		kinds = []*mocrelay.Nip11Kind{{From: 7, To: 0}, {From: 0, To: 5}, {From: 0, To: 0}}
	case "wide":
		kinds = []*mocrelay.Nip11Kind{{From: 9007199254740993, To: 9007199254740993}, {From: 9007199254740993, To: 9007199254740995}, {From: -9007199254740993, To: 2}}
	case "mixed":
		kinds = []*mocrelay.Nip11Kind{{From: 0, To: 0}, {From: 40, To: 49}, {From: 30000, To: 39999}, {From: 5, To: 5}}
	}
	n := &mocrelay.NIP11{}
	if has["name"] {
		n.Name = "名前 <relay> & \"co\""
	}
	if has["description"] {
		n.Description = "line1\nline2  😀"
	}
	if has["pubkey"] {
		n.Pubkey = strings.Repeat("ab", 32)
	}
	if has["contact"] {
		n.Contact = "mailto:a@example.com"
	}
	if has["supported_nips"] {
		n.SupportedNIPs = []int{1, 9, 11, 45}
	}
	if has["software"] {
		n.Software = "https://example.com/x"
	}
	if has["version"] {
		n.Version = "1.2.3"
	}
	if has["limitation"] {
		n.Limitation = &mocrelay.NIP11Limitation{MaxMessageLength: 16384, MaxSubscriptions: 20, MaxFilters: 100, MaxLimit: 5000, MaxSubIDLength: 100,
			MaxEventTags: 100, MaxContentLength: 8196, MinPoWDifficulty: 30, AuthRequired: true, PaymentRequired: true, CreatedAtLowerLimit: 31536000, CreatedAtUpperLimit: 3}
	}
	if has["retention"] {
		n.Retention = &mocrelay.NIP11Retention{Kinds: kinds, Time: ip(3600), Count: ip(0)}
	}
	if has["relay_countries"] {
		n.RelayContries = []string{"JP", "US"}
	}
	if has["language_tags"] {
		n.LanguageTags = []string{"ja", "en-419"}
	}
	if has["tags"] {
		n.Tags = []string{"sfw-only"}
	}
	if has["posting_policy"] {
		n.PostingPolicy = "https://example.com/policy"
	}
	if has["payments_url"] {
		n.PaymentsURL = "https://example.com/pay"
	}
	if has["fees"] {
		n.Fees = &mocrelay.NIP11Fees{
			Admission:    []*mocrelay.Nip11Fee{{Amount: 1000000, Unit: "msats"}},
			Subscription: []*mocrelay.Nip11Fee{{Amount: 5000000, Unit: "msats", Period: ip(2592000)}},
			Publication:  []*mocrelay.Nip11Fee{{Kinds: kinds, Amount: 0, Unit: "msats"}},
		}
	}
	if has["icon"] {
		n.Icon = "https://example.com/icon.png"
	}
	return n
}

// C20: HTTP front door.
func C20(run *core.Run) {
	run.Level = "exploration"
	var reqs []fdReq
	var docs []fdDoc
	res, err := tlcrun.Run(tlcrun.Options{Module: "FrontDoor", Config: "FrontDoor.cfg", Workers: 1, Timeout: 10 * time.Minute,
		OnJSON: func(line string) {
			var t struct {
				Req *fdReq `json:"req"`
				Doc *fdDoc `json:"doc"`
			}
			if json.Unmarshal([]byte(line), &t) != nil {
				return
			}
			if t.Req != nil {
				reqs = append(reqs, *t.Req)
			}
			if t.Doc != nil {
				docs = append(docs, *t.Doc)
			}
		}})
	if err != nil || !res.OK || len(reqs) == 0 {
		tail := ""
		if res != nil {
			tail = res.Tail
		}
		run.Problem("TLC failed on FrontDoor: %v\n%s", err, tail)
		return
	}
	run.Set("states", res.Distinct)
	run.Set("transitions", res.Generated)
	distinct := core.NewDistinct()
	fullDoc := buildDoc(fdDoc{Fields: []string{"name", "description", "supported_nips", "limitation", "retention", "fees"}, Kinds: "mixed"})
	wantDoc, _ := json.Marshal(fullDoc)
	for i, rq := range reqs {
		h := &recHandler{emitPlan: func(int) int { return 0 }}
		relay := mocrelay.NewRelay(h, nil)
		mux := &mocrelay.ServeMux{Relay: relay}
		if rq.Doc == "set" {
			mux.NIP11 = fullDoc
		}
		if rq.Def == "set" {
			mux.Default = http.HandlerFunc(func(w http.ResponseWriter, r *http.Request) {
				w.Header().Set("X-Verif-Default", "1")
				w.WriteHeader(http.StatusTeapot)
				io.WriteString(w, "default handler")
			})
		}
		srv := httptest.NewServer(mux)
		outcome, detail := frontDoorRequest(srv.URL, rq, h, wantDoc)
		srv.Close()
		run.Add("requests", 1)
		distinct.Add(fmt.Sprintf("%s/%s/%s/%s/%s", rq.Upgrade, rq.Accept, rq.Origin, rq.Doc, rq.Def))
		allowed := false
		for _, o := range strings.Split(rq.Outcome, "|") {
			allowed = allowed || o == outcome
		}
		if !allowed {
			run.Violate(fmt.Sprintf("route:upgrade=%s accept=%s origin=%s doc=%s default=%s want=%s got=%s", rq.Upgrade, rq.Accept, rq.Origin, rq.Doc, rq.Def, rq.Outcome, outcome),
				fmt.Sprintf("%+v: observed %s (%s)", rq, outcome, detail), map[string]any{"request": rq})
		}
		if i == 5 {
			run.Sample(map[string]any{"request": rq, "observed": outcome})
		}
	}
	// NIP-11 documents round-trip through JSON
	for i, d := range docs {
		doc := buildDoc(d)
		b, err := json.Marshal(doc)
		if err != nil {
			run.Violate("doc:marshal-error", err.Error(), map[string]any{"doc": d})
			continue
		}
		var back mocrelay.NIP11
		if err := json.Unmarshal(b, &back); err != nil {
			run.Violate("doc:unmarshal-error kinds="+d.Kinds, fmt.Sprintf("%s: %v", b, err), map[string]any{"doc": d, "json": string(b)})
			continue
		}
		run.Add("documents", 1)
		distinct.Add(fmt.Sprintf("doc %v %s", d.Fields, d.Kinds))
		if !reflect.DeepEqual(doc, &back) {
			run.Violate("doc:roundtrip-differs kinds="+d.Kinds, fmt.Sprintf("%s decodes to a different document", b), map[string]any{"doc": d, "json": string(b)})
		}
		// building the limit middlewares from the document leaves the document as it is (the same
		// object is served by the mux)
		if i%5 == 0 {
			before, _ := json.Marshal(doc)
			_ = mocrelay.BuildMiddlewareFromNIP11(doc)(mocrelay.NewDefaultHandler())
			after, _ := json.Marshal(doc)
			if !bytes.Equal(before, after) {
				run.Violate("doc:changed by BuildMiddlewareFromNIP11", fmt.Sprintf("configured %s, after building the middleware chain %s", before, after), map[string]any{"doc": d})
			}
		}
		// served document equals the configuration
		if i%9 == 0 {
			rec := httptest.NewRecorder()
			req := httptest.NewRequest("GET", "/", nil)
			req.Header.Set("Accept", "application/nostr+json")
			mux := &mocrelay.ServeMux{NIP11: doc}
			mux.ServeHTTP(rec, req)
			var served mocrelay.NIP11
			if err := json.Unmarshal(rec.Body.Bytes(), &served); err != nil || !reflect.DeepEqual(doc, &served) ||
				rec.Header().Get("Content-Type") != "application/nostr+json" || rec.Header().Get("Access-Control-Allow-Origin") != "*" {
				run.Violate("doc:served-differs", fmt.Sprintf("served %s headers %v (err %v)", rec.Body.String(), rec.Header(), err), map[string]any{"doc": d})
			}
			// the configuration changes between two requests: the second answer shows the new one
			doc.Name = doc.Name + " (renamed)"
			doc.SupportedNIPs = append(doc.SupportedNIPs, 99)
			rec2 := httptest.NewRecorder()
			mux.ServeHTTP(rec2, req) // the same mux
			var served2 mocrelay.NIP11
			if err := json.Unmarshal(rec2.Body.Bytes(), &served2); err != nil || !reflect.DeepEqual(doc, &served2) {
				run.Violate("doc:served-stale-after-config-change", fmt.Sprintf("after changing the configured document the served one is %s", rec2.Body.String()), map[string]any{"doc": d})
			}
			// ... and after replacing the document of the mux
			other := buildDoc(fdDoc{Fields: []string{"name", "version"}, Kinds: "none"})
			mux.NIP11 = other
			rec3 := httptest.NewRecorder()
			mux.ServeHTTP(rec3, req)
			var served3 mocrelay.NIP11
			if err := json.Unmarshal(rec3.Body.Bytes(), &served3); err != nil || !reflect.DeepEqual(other, &served3) {
				run.Violate("doc:served-stale-after-config-change", fmt.Sprintf("after replacing the mux's document the served one is %s", rec3.Body.String()), map[string]any{"doc": d})
			}
		}
		if i == 3 {
			run.Sample(map[string]any{"doc_shape": d, "json": string(b)})
		}
	}
	run.Set("rule", "FrontDoor.tla is the routing decision table; TLC enumerates Upgrade {absent, websocket, other, mixed case} x Accept {absent, exact, text/html, with parameter, list, upper case} x method x NIP-11 document {nil, set} x default handler {nil, set} with the expected outcome, and 275 document shapes (no field, each field alone, pairs with limitation/retention/fees, all fields) x 5 ways of writing kind ranges; every request is sent with net/http to an httptest server around the real ServeMux + NewRelay (a websocket Upgrade must open a session on the recording handler, another Upgrade value must be refused by the relay), every document is marshalled, unmarshalled and compared, and served documents are compared with the configuration and their headers. distinct_nontrivial = distinct (header, configuration) combinations + document shapes")
	run.Set("evaluations", run.Get("requests")+run.Get("documents"))
	run.Set("distinct_nontrivial", distinct.Len())
	run.Set("exhaustive", true)
	run.Assume = append(run.Assume, "this property is a pure decision table: TLC contributes exhaustive enumeration and the expected outcome, nothing temporal")
}

func frontDoorRequest(url string, rq fdReq, h *recHandler, wantDoc []byte) (outcome, detail string) {
	upgrade := map[string]string{"websocket": "websocket", "other": "h2c", "upper": "WebSocket"}[rq.Upgrade]
	accept := map[string]string{"exact": "application/nostr+json", "html": "text/html", "withparam": "application/nostr+json; charset=utf-8",
		"list": "application/nostr+json, text/html", "upper": "Application/Nostr+JSON"}[rq.Accept]
	if rq.Upgrade == "websocket" || rq.Upgrade == "upper" {
		ctx, cancel := context.WithTimeout(context.Background(), 5*time.Second)
		defer cancel()
		hdr := http.Header{}
		if accept != "" {
			hdr.Set("Accept", accept)
		}
		conn, _, err := websocket.Dial(ctx, "ws"+strings.TrimPrefix(url, "http"), &websocket.DialOptions{HTTPHeader: hdr})
		if err != nil {
			return "no-websocket-session", err.Error()
		}
		defer conn.CloseNow()
		if err := conn.Write(ctx, websocket.MessageText, []byte(`["CLOSE","probe"]`)); err != nil {
			return "no-websocket-session", err.Error()
		}
		for i := 0; i < 400; i++ {
			h.mu.Lock()
			n := len(h.received)
			h.mu.Unlock()
			if n > 0 {
				return "websocket-session", ""
			}
			time.Sleep(5 * time.Millisecond)
		}
		return "no-websocket-session", "the relay's handler never saw the message"
	}
	req, _ := http.NewRequest(rq.Method, url, nil)
	if upgrade != "" {
		req.Header.Set("Upgrade", upgrade)
		req.Header.Set("Connection", "Upgrade")
	}
	if accept != "" {
		req.Header.Set("Accept", accept)
	}
	if rq.Origin == "set" {
		req.Header.Set("Origin", "https://client.example")
	}
	switch rq.Accept {
	case "lines-exact-first":
		req.Header["Accept"] = []string{"application/nostr+json", "text/html"}
	case "lines-exact-second":
		req.Header["Accept"] = []string{"text/html", "application/nostr+json"}
	}
	resp, err := http.DefaultClient.Do(req)
	if err != nil {
		return "error", err.Error()
	}
	defer resp.Body.Close()
	body, _ := io.ReadAll(resp.Body)
	switch {
	case resp.Header.Get("X-Verif-Default") == "1":
		return "default-handler", ""
	case strings.HasPrefix(string(body), "Hello Mocrelay"):
		return "greeting", ""
	case resp.Header.Get("Content-Type") == "application/nostr+json" && resp.Header.Get("Access-Control-Allow-Origin") == "*":
		var a, b any
		if json.Unmarshal(body, &a) == nil && json.Unmarshal(wantDoc, &b) == nil && reflect.DeepEqual(a, b) {
			return "document", ""
		}
		return "wrong-document", string(body)
	case strings.TrimSpace(string(body)) == "{}":
		return "empty-document", ""
	case resp.StatusCode >= 400 && upgrade != "":
		return "relay-refuses-upgrade", fmt.Sprint(resp.StatusCode)
	}
	return "other", fmt.Sprintf("%d %s %v", resp.StatusCode, body, resp.Header)
}
