package checks

import (
	"context"
	"fmt"
	"net"
	"net/http"
	"net/http/httptest"
	"strings"
	"sync"
	"time"

	"github.com/coder/websocket"
	"github.com/high-moctane/mocrelay"
)

// smallBufListener: accepted connections get a 4 KiB kernel send buffer, so that a flood of
// short replies fills it within a fraction of a second.
type smallBufListener struct{ net.Listener }

func (l smallBufListener) Accept() (net.Conn, error) {
	c, err := l.Listener.Accept()
	if tc, ok := c.(*net.TCPConn); ok {
		tc.SetWriteBuffer(4096)
	}
	return c, err
}

// wsStalledPeerShortReplies: the client never reads and floods the relay with short well-formed
// requests (REQ / COUNT / CLOSE to the default handler); every reply is a short frame (EOSE,
// CLOSED, COUNT, NOTICE: far below 125 bytes). The write that blocks is therefore a short one,
// and the send timeout has to end the session all the same.
func wsStalledPeerShortReplies(sendTimeout, ping time.Duration) (bool, string) {
	ended := make(chan struct{})
	var once sync.Once
	inner := mocrelay.NewDefaultHandler()
	h := mocrelay.HandlerFunc(func(ctx context.Context, send chan<- mocrelay.ServerMsg, recv <-chan mocrelay.ClientMsg) error {
		defer once.Do(func() { close(ended) })
		return inner.ServeNostr(ctx, send, recv)
	})
	opt := mocrelay.NewDefaultRelayOption()
	opt.SendTimeout = sendTimeout
	opt.PingDuration = ping
	opt.RecvRateLimitRate = 1e9
	opt.RecvRateLimitBurst = 1 << 30
	srv := httptest.NewUnstartedServer(mocrelay.NewRelay(h, opt))
	srv.Listener = smallBufListener{srv.Listener}
	srv.Start()
	defer srv.Close()
	dialer := &net.Dialer{}
	httpClient := &http.Client{Transport: &http.Transport{
		DialContext: func(ctx context.Context, network, addr string) (net.Conn, error) {
			c, err := dialer.DialContext(ctx, network, addr)
			if tc, ok := c.(*net.TCPConn); ok {
				tc.SetReadBuffer(4096)
			}
			return c, err
		},
	}}
	ctx, cancel := context.WithTimeout(context.Background(), 40*time.Second)
	defer cancel()
	conn, _, err := websocket.Dial(ctx, "ws"+strings.TrimPrefix(srv.URL, "http"), &websocket.DialOptions{HTTPClient: httpClient})
	if err != nil {
		return false, "dial: " + err.Error()
	}
	defer conn.CloseNow()
	frames := [][]byte{[]byte(`["REQ","s",{}]`), []byte(`["COUNT","c",{}]`), []byte(`["REQ","t",{"kinds":[1]}]`), []byte(`["CLOSE","s"]`)}
	start := time.Now()
	sent := 0
	go func() {
		for ctx.Err() == nil {
			if err := conn.Write(ctx, websocket.MessageText, frames[sent%len(frames)]); err != nil {
				return
			}
			sent++
		}
	}()
	select {
	case <-ended:
		return true, ""
	case <-time.After(20 * time.Second):
		return false, fmt.Sprintf("SendTimeout %v, PingDuration %v: the session was still running %v after the peer stopped reading (%d short requests sent, every reply a short frame)", sendTimeout, ping, time.Since(start).Round(time.Millisecond), sent)
	}
}
