package checks

import (
	"context"
	"encoding/json"
	"fmt"
	"github.com/coder/websocket"
	"net/http/httptest"
	"reflect"
	"strings"
	"time"

	"github.com/high-moctane/mocrelay"

	"verif/harness/internal/abs"
	"verif/harness/internal/core"
	"verif/harness/internal/tlcrun"
)

// wireCase is an abstract client message of spec/Wire.tla.
type wireCase struct {
	M struct {
		Type string            `json:"type"`
		Env  map[string]string `json:"env"`
		Ev   map[string]string `json:"ev"`
		F1   map[string]string `json:"f1"`
		F2   map[string]string `json:"f2"`
	} `json:"m"`
	Verdict string `json:"verdict"`
}

type srvCase struct {
	Type   string `json:"type"`
	Str    string `json:"str"`
	Prefix string `json:"prefix"`
	Acc    bool   `json:"acc"`
	Count  string `json:"count"`
	Approx string `json:"approx"`
}

// describe names the corrupted positions (the ones not in the baseline).
func (c *wireCase) describe() string {
	var parts []string
	add := func(prefix string, m, base map[string]string) {
		for k, v := range m {
			if base[k] != v {
				parts = append(parts, prefix+k+"="+v)
			}
		}
	}
	add("env.", c.M.Env, map[string]string{"label": "ok", "sub": "ok", "arity": "ok", "top": "array", "ws": "none", "nfil": "one"})
	if c.M.Type == "EVENT" || c.M.Type == "AUTH" {
		add("ev.", c.M.Ev, map[string]string{"id": "ok", "pubkey": "ok", "sig": "ok", "kind": "k1", "created_at": "now", "tags": "one", "content": "ascii", "members": "exact", "obj": "object"})
	}
	if c.M.Type == "REQ" || c.M.Type == "COUNT" {
		base := map[string]string{"ids": "absent", "authors": "absent", "kinds": "absent", "tage": "absent", "tagp": "absent", "tagt": "absent", "taga": "absent", "key": "none", "since": "absent", "until": "absent", "limit": "absent", "rel": "na", "obj": "object"}
		full := map[string]string{"ids": "two", "authors": "one", "kinds": "multi", "tage": "ok", "tagp": "ok", "tagt": "ok", "taga": "ok", "key": "none", "since": "ok", "until": "ok", "limit": "ok", "rel": "na", "obj": "object"}
		if c.M.F1["ids"] == "two" && c.M.F1["limit"] != "absent" || c.M.F1["authors"] == "one" {
			add("f1(full).", c.M.F1, full)
		} else {
			add("f1.", c.M.F1, base)
		}
		if c.M.Env["nfil"] == "two" {
			add("f2.", c.M.F2, full)
		}
	}
	sortStrings(parts)
	return c.M.Type + "[" + strings.Join(parts, ",") + "]"
}

func sortStrings(s []string) {
	for i := 1; i < len(s); i++ {
		for j := i; j > 0 && s[j] < s[j-1]; j-- {
			s[j], s[j-1] = s[j-1], s[j]
		}
	}
}

type wireRender struct {
	id1, id2, pk, sig string
	ev                *mocrelay.Event // authentic baseline event (used when all event positions are baseline)
}

func newWireRender(conc *abs.Conc) *wireRender {
	ev := conc.SignRaw("a", 1700000000, 1, []mocrelay.Tag{{"t", "x"}}, "hello")
	e2 := conc.SignRaw("b", 1700000001, 1, []mocrelay.Tag{}, "other")
	return &wireRender{id1: ev.ID, id2: e2.ID, pk: ev.Pubkey, sig: ev.Sig, ev: ev}
}

func q(s string) string { b, _ := json.Marshal(s); return string(b) }

func hexStatus(val string, st string) string {
	switch st {
	case "ok":
		return q(val)
	case "upper":
		u := strings.ToUpper(val)
		if u == val { // no letter: force one
			u = "A" + val[1:]
		}
		return q(u)
	case "short":
		return q(val[:len(val)-1])
	case "long":
		return q(val + "0")
	case "nonhex":
		return q("g" + val[1:])
	case "udigit":
		return q("\u0663" + val[1:len(val)-1]) // ARABIC-INDIC DIGIT THREE (2 bytes) + the rest minus one: same byte length
	case "empty":
		return `""`
	case "number":
		return "123"
	}
	return "null"
}

func (w *wireRender) event(st map[string]string) string {
	switch st["obj"] {
	case "null":
		return "null"
	case "string":
		return `"event"`
	}
	kind := map[string]string{"k0": "0", "k1": "1", "k65535": "65535", "neg": "-1", "k65536": "65536", "big": "2147483648", "float": "1.5", "string": `"1"`, "exp": "1e3", "wrap32": "4294967297"}[st["kind"]]
	ts := map[string]string{"t0": "0", "now": "1700000000", "big": "9007199254740992", "neg": "-1", "float": "1.5", "string": `"1700000000"`}[st["created_at"]]
	tags := map[string]string{
		"none": `[]`, "one": `[["t","x"]]`,
		"multi":    `[["e",` + q(w.id2) + `,"wss://relay.example"],["p",` + q(w.pk) + `],["t","x"],["title","a b"]]`,
		"nameonly": `[["t"]]`, "emptyval": `[["t",""]]`, "emptytag": `[[]]`, "emptyname": `[[""]]`,
		"numelem": `[["t",1]]`, "notarray": `"x"`, "innernotarray": `["t"]`}[st["tags"]]
	content := map[string]string{"empty": `""`, "ascii": `"hello"`, "unicode": `"日本😀<>& "`, "escapes": `"a\"b\\c\n\t\u0001é😀"`, "number": "5"}[st["content"]]
	fields := []string{
		`"id":` + hexStatus(w.id1, st["id"]),
		`"pubkey":` + hexStatus(w.pk, st["pubkey"]),
		`"created_at":` + ts,
		`"kind":` + kind,
		`"tags":` + tags,
		`"content":` + content,
		`"sig":` + hexStatus(w.sig, st["sig"]),
	}
	switch st["members"] {
	case "missing":
		fields = append(fields[:5], fields[6:]...) // drop content
	case "extra":
		fields = append(fields, `"foo":1`)
	case "dupkey":
		fields = append([]string{`"kind":2`}, fields...)
	}
	obj := "{" + strings.Join(fields, ",") + "}"
	if st["obj"] == "array" {
		return "[" + obj + "]"
	}
	return obj
}

func (w *wireRender) filter(st map[string]string) string {
	switch st["obj"] {
	case "null":
		return "null"
	case "string":
		return `"filter"`
	}
	var f []string
	list := func(key, a, b, status string) {
		switch status {
		case "absent":
		case "one":
			f = append(f, q(key)+":["+q(a)+"]")
		case "two":
			f = append(f, q(key)+":["+q(a)+","+q(b)+"]")
		case "empty":
			f = append(f, q(key)+":[]")
		case "upper":
			f = append(f, q(key)+":["+hexStatus(a, "upper")+"]")
		case "short":
			f = append(f, q(key)+":["+hexStatus(a, "short")+"]")
		case "udigit":
			f = append(f, q(key)+":["+hexStatus(a, "udigit")+"]")
		case "number":
			f = append(f, q(key)+":[1]")
		case "notarray":
			f = append(f, q(key)+`:"x"`)
		case "null":
			f = append(f, q(key)+":null")
		}
	}
	list("ids", w.id1, w.id2, st["ids"])
	list("authors", w.pk, w.pk, st["authors"])
	switch st["kinds"] {
	case "one":
		f = append(f, `"kinds":[1]`)
	case "multi":
		f = append(f, `"kinds":[0,65535,30000]`)
	case "empty":
		f = append(f, `"kinds":[]`)
	case "neg":
		f = append(f, `"kinds":[1,-1]`)
	case "k65536":
		f = append(f, `"kinds":[65536]`)
	case "wrap32":
		f = append(f, `"kinds":[1,4294967297]`)
	case "float":
		f = append(f, `"kinds":[1.5]`)
	case "string":
		f = append(f, `"kinds":["1"]`)
	case "notarray":
		f = append(f, `"kinds":1`)
	}
	tagE := func(key, good, status string) {
		switch status {
		case "ok":
			f = append(f, q(key)+":["+q(good)+"]")
		case "empty":
			f = append(f, q(key)+":[]")
		case "badid":
			f = append(f, q(key)+`:["xyz"]`)
		case "number":
			f = append(f, q(key)+":[1]")
		case "notarray":
			f = append(f, q(key)+`:"x"`)
		}
	}
	tagE("#e", w.id2, st["tage"])
	tagE("#p", w.pk, st["tagp"])
	switch st["tagt"] {
	case "ok":
		f = append(f, `"#t":["x","y"]`)
	case "emptystr":
		f = append(f, `"#t":[""]`)
	case "empty":
		f = append(f, `"#t":[]`)
	case "upperkey":
		f = append(f, `"#T":["x"]`)
	case "number":
		f = append(f, `"#t":[1]`)
	case "notarray":
		f = append(f, `"#t":"x"`)
	}
	a := map[string]string{"ok": "30000:" + w.pk + ":x", "dcolon": "30000:" + w.pk + ":a:b:c", "emptyd": "30000:" + w.pk + ":",
		"kind0emptyd": "0:" + w.pk + ":", "kindwrap": "4294967297:" + w.pk + ":d", "twoparts": "30000:" + w.pk, "badkind": "x:" + w.pk + ":d", "kindrange": "70000:" + w.pk + ":d",
		"badpk": "30000:zz:d", "upperpk": "30000:" + strings.ToUpper(w.pk) + ":d",
		"udigitpk": "30000:\u0663" + w.pk[1:len(w.pk)-1] + ":d"}
	if v, ok := a[st["taga"]]; ok {
		f = append(f, `"#a":[`+q(v)+`]`)
	}
	switch st["key"] {
	case "unknown":
		f = append(f, `"foo":1`)
	case "multiletter":
		f = append(f, `"#ab":["x"]`)
	case "hashonly":
		f = append(f, `"#":["x"]`)
	case "emptykey":
		f = append(f, `"":1`)
	case "digit":
		f = append(f, `"#1":["x"]`)
	}
	num := func(key, okv, status string) {
		switch status {
		case "zero":
			f = append(f, q(key)+":0")
		case "ok":
			f = append(f, q(key)+":"+okv)
		case "neg":
			f = append(f, q(key)+":-1")
		case "float":
			f = append(f, q(key)+":1.5")
		case "string":
			f = append(f, q(key)+`:"1"`)
		}
	}
	since := "100"
	if st["rel"] == "inverted" && st["since"] == "ok" && st["until"] == "ok" {
		since = "300"
	}
	num("since", since, st["since"])
	num("until", "200", st["until"])
	num("limit", "10", st["limit"])
	obj := "{" + strings.Join(f, ",") + "}"
	if st["obj"] == "array" {
		return "[" + obj + "]"
	}
	return obj
}

// relevantOpen reports whether an "open" rel status is actually rendered.
func whitespace(compact string, mode string) string {
	if mode == "none" {
		return compact
	}
	if mode == "leading" {
		return " \t" + compact
	}
	if mode == "longleading" {
		return strings.Repeat(" \n\t\r", 60) + compact
	}
	if mode == "trailing" {
		return compact + " \n"
	}
	sep := " "
	if mode == "newline" {
		sep = "\n"
	} else if mode == "tabcr" {
		sep = "\t\r\n "
	} else if mode == "longinner" {
		sep = strings.Repeat(" ", 90) + "\n"
	}
	var b strings.Builder
	inStr, esc := false, false
	for i := 0; i < len(compact); i++ {
		c := compact[i]
		if inStr {
			b.WriteByte(c)
			if esc {
				esc = false
			} else if c == '\\' {
				esc = true
			} else if c == '"' {
				inStr = false
			}
			continue
		}
		switch c {
		case '"':
			inStr = true
			b.WriteByte(c)
		case ',', ':':
			b.WriteString(sep) // insignificant whitespace may also stand before a separator
			b.WriteByte(c)
			b.WriteString(sep)
		case '[', '{':
			b.WriteByte(c)
			b.WriteString(sep)
		case ']', '}':
			b.WriteString(sep)
			b.WriteByte(c)
		default:
			b.WriteByte(c)
		}
	}
	return b.String()
}

// render produces the JSON text of an abstract client message.
func (w *wireRender) render(c *wireCase) string {
	env := c.M.Env
	t := c.M.Type
	switch env["top"] {
	case "object":
		return whitespace(`{"a":1}`, env["ws"])
	case "string":
		return whitespace(q(t), env["ws"])
	case "emptyarray":
		return whitespace(`[]`, env["ws"])
	}
	label := map[string]string{"ok": q(t), "lower": q(strings.ToLower(t)), "unknown": `"FOO"`, "number": "1"}[env["label"]]
	sub := map[string]string{"ok": `"sub1"`, "empty": `""`, "long": q(strings.Repeat("s", 65)), "number": "1",
		"unicode": "\"s \uFFFD \uFEFF 日本\""}[env["sub"]] // a literal replacement character and a BOM are ordinary characters
	elems := []string{label}
	switch t {
	case "EVENT", "AUTH":
		elems = append(elems, w.event(c.M.Ev))
	case "CLOSE":
		elems = append(elems, sub)
	case "REQ", "COUNT":
		elems = append(elems, sub)
		switch env["nfil"] {
		case "one":
			elems = append(elems, w.filter(c.M.F1))
		case "two":
			elems = append(elems, w.filter(c.M.F1), w.filter(c.M.F2))
		}
	}
	if t != "REQ" && t != "COUNT" {
		switch env["arity"] {
		case "short":
			elems = elems[:len(elems)-1]
		case "long":
			elems = append(elems, `"x"`)
		}
	}
	return whitespace("["+strings.Join(elems, ",")+"]", env["ws"])
}

func loadWire(run *core.Run, pairs bool) (cases []*wireCase, srv []srvCase, ok bool) {
	res, err := tlcrun.Run(tlcrun.Options{
		Module: "Wire", Config: "Wire.cfg", Workers: 1, Timeout: 30 * time.Minute, Heap: "12g",
		Consts: map[string]string{"Pairs": map[bool]string{true: "TRUE", false: "FALSE"}[pairs]},
		OnJSON: func(line string) {
			if strings.HasPrefix(line, `{"srv"`) {
				var s struct {
					Srv srvCase `json:"srv"`
				}
				if err := json.Unmarshal([]byte(line), &s); err == nil {
					srv = append(srv, s.Srv)
				}
				return
			}
			c := new(wireCase)
			if err := json.Unmarshal([]byte(line), c); err != nil {
				run.Problem("bad export line: %v", err)
				return
			}
			cases = append(cases, c)
		},
	})
	if err != nil || !res.OK || len(cases) == 0 {
		tail := ""
		if res != nil {
			tail = res.Tail
		}
		run.Problem("TLC failed on Wire: %v\n%s", err, tail)
		return nil, nil, false
	}
	run.Add("states", res.Distinct+int64(len(cases)))
	run.Add("transitions", res.Generated+int64(len(cases)))
	return cases, srv, true
}

func hexLower(s string, n int) bool {
	if len(s) != n {
		return false
	}
	for _, c := range s {
		if !(c >= '0' && c <= '9' || c >= 'a' && c <= 'f') {
			return false
		}
	}
	return true
}

// soundFilter / soundEvent: what components behind the gate rely on (C11,
// second sentence). Used for accepted messages that are outside the abstract
// grammar (byte-level mutations); inside the grammar the verdict comes from
// Wire.tla.
func soundEvent(e *mocrelay.Event) string {
	switch {
	case e == nil:
		return "nil event"
	case !hexLower(e.ID, 64):
		return "id not 64 lower-case hex"
	case !hexLower(e.Pubkey, 64):
		return "pubkey not 64 lower-case hex"
	case !hexLower(e.Sig, 128):
		return "sig not 128 lower-case hex"
	case e.Kind < 0 || e.Kind > 65535:
		return "kind out of range"
	case e.Tags == nil:
		return "nil tags"
	}
	return ""
}

func soundFilter(f *mocrelay.ReqFilter) string {
	if f == nil {
		return "nil filter"
	}
	for _, id := range f.IDs {
		if !hexLower(id, 64) {
			return "ids element not 64 lower-case hex"
		}
	}
	for _, a := range f.Authors {
		if !hexLower(a, 64) {
			return "authors element not 64 lower-case hex"
		}
	}
	for _, k := range f.Kinds {
		if k < 0 || k > 65535 {
			return "kinds element out of range"
		}
	}
	for n := range f.Tags {
		if len(n) != 1 || !(n[0] >= 'a' && n[0] <= 'z' || n[0] >= 'A' && n[0] <= 'Z') {
			return "tag filter key not a single letter"
		}
	}
	if f.Since != nil && *f.Since < 0 || f.Until != nil && *f.Until < 0 || f.Limit != nil && *f.Limit < 0 {
		return "negative since/until/limit"
	}
	return ""
}

func soundMsg(m mocrelay.ClientMsg) string {
	switch m := m.(type) {
	case *mocrelay.ClientEventMsg:
		return soundEvent(m.Event)
	case *mocrelay.ClientAuthMsg:
		return soundEvent(m.Event)
	case *mocrelay.ClientReqMsg:
		for _, f := range m.ReqFilters {
			if s := soundFilter(f); s != "" {
				return s
			}
		}
	case *mocrelay.ClientCountMsg:
		for _, f := range m.ReqFilters {
			if s := soundFilter(f); s != "" {
				return s
			}
		}
	}
	return ""
}

func gate(text string) (accepted bool, msg mocrelay.ClientMsg, panicked any) {
	defer func() {
		if p := recover(); p != nil {
			panicked = p
		}
	}()
	m, err := mocrelay.ParseClientMsg([]byte(text))
	if err != nil {
		return false, nil, nil
	}
	return mocrelay.ValidClientMsg(m), m, nil
}

// C11: admission.
func C11(run *core.Run) {
	cases, _, ok := loadWire(run, run.Thorough())
	if !ok {
		return
	}
	conc := abs.NewConc()
	w := newWireRender(conc)
	distinct := core.NewDistinct()
	// baseline: every well-formed case parsed before any failing parse has happened in this process
	type base struct {
		text string
		msg  mocrelay.ClientMsg
	}
	var baseline []base
	for _, c := range cases {
		if c.Verdict != "accept" {
			continue
		}
		text := w.render(c)
		if acc, msg, p := gate(text); acc && p == nil {
			baseline = append(baseline, base{text, msg})
		}
	}
	var failing []string
	for i, c := range cases {
		text := w.render(c)
		acc, msg, p := gate(text)
		if msg == nil && p == nil && len(failing) < 4000 {
			failing = append(failing, text)
		}
		run.Add("messages_gated", 1)
		desc := c.describe()
		if c.Verdict != "accept" {
			distinct.Add(desc)
		}
		if p != nil {
			run.Violate("panic:"+desc, fmt.Sprintf("gate panicked on %s: %v", text, p), map[string]any{"text": text})
			continue
		}
		switch {
		case c.Verdict == "accept" && !acc:
			run.Violate("reject-wellformed:"+desc, fmt.Sprintf("well-formed message refused by ParseClientMsg/ValidClientMsg: %s", text), map[string]any{"text": text, "case": c})
		case c.Verdict == "reject" && acc:
			run.Violate("accept-illformed:"+desc, fmt.Sprintf("ill-formed message (%s) judged valid: %s", desc, text), map[string]any{"text": text, "case": c})
		}
		if acc {
			if s := soundMsg(msg); s != "" {
				run.Violate("accepted-unsound:"+s, fmt.Sprintf("accepted %s but %s", text, s), map[string]any{"text": text})
			}
		}
		if i == len(cases)/3 {
			run.Sample(map[string]any{"case": desc, "text": text, "verdict": c.Verdict, "accepted": acc})
		}
	}
	// the verdict on a text does not depend on what was parsed before it: every failing parse
	// (sample) followed by every well-formed text (sample) must give the baseline result
	{
		r := run.Rand("c11-history")
		nf, nw := 120, 80
		if run.Thorough() {
			nf, nw = 600, 300
		}
		for i := 0; i < nf && len(failing) > 0 && run.Violations() < 8; i++ {
			f := failing[r.Intn(len(failing))]
			for k := 0; k < nw && len(baseline) > 0; k++ {
				b := baseline[r.Intn(len(baseline))]
				for rep := 0; rep < 2; rep++ {
					gate(f)
				}
				acc, msg, p := gate(b.text)
				run.Add("history_pairs", 1)
				if p != nil || !acc || !reflect.DeepEqual(msg, b.msg) {
					run.Violate("parse-depends-on-history", fmt.Sprintf("well-formed %s parsed after the failing %s: accepted=%v panic=%v, result differs from the same text parsed first", b.text, f, acc, p),
						map[string]any{"failing": f, "text": b.text})
					break
				}
			}
		}
	}
	// the same verdict behind the real gate: every well-formed text, sent over a WebSocket to
	// NewRelay(recording handler), reaches the handler as the message it parses to, in order
	{
		var texts []string
		for _, b := range baseline {
			// authenticity is C01's subject: variants of the signed base event whose fields no longer
			// hash to its id are well-formed but (rightly) refused by the gate's Verify
			if em, ok := b.msg.(*mocrelay.ClientEventMsg); ok {
				if v, err := em.Event.Verify(); !v || err != nil {
					continue
				}
			}
			texts = append(texts, b.text)
		}
		if len(texts) > 400 {
			texts = texts[:400]
		}
		gateBehindRelay(run, texts)
	}
	run.Set("rule", "(the result of parsing a well-formed text is also compared, for sampled pairs, after a failing parse with the result of parsing it first.) Wire.tla gives every syntactic position of the 5 client message types a status that is ok / bad / open; TLC enumerates each baseline, each ok variant, each whitespace placement and every single-point corruption (thorough: every pair) with Verdict = reject if some position is bad, accept if all ok, any otherwise; each case is rendered as JSON text and judged by ParseClientMsg + ValidClientMsg. distinct_nontrivial = distinct corrupted/open cases")
	run.Set("evaluations", run.Get("messages_gated"))
	run.Set("distinct_nontrivial", distinct.Len())
	run.Set("exhaustive", true)
	run.Assume = append(run.Assume, "positions the property does not claim (JSON null for an object, since > until, empty subscription id, #e values that are not ids, exponent notation, negative created_at, zero filters) are 'open': either outcome")
}

// gateBehindRelay sends well-formed texts through Relay.ServeHTTP and compares what the handler receives.
func gateBehindRelay(run *core.Run, texts []string) {
	h := &recHandler{emitPlan: func(int) int { return 0 }}
	opt := mocrelay.NewDefaultRelayOption()
	opt.RecvRateLimitRate = 1e9
	opt.RecvRateLimitBurst = 1 << 30
	srv := httptest.NewServer(mocrelay.NewRelay(h, opt))
	defer srv.Close()
	ctx, cancel := context.WithTimeout(context.Background(), 30*time.Second)
	defer cancel()
	conn, _, err := websocket.Dial(ctx, "ws"+strings.TrimPrefix(srv.URL, "http"), nil)
	if err != nil {
		run.Problem("dial: %v", err)
		return
	}
	defer conn.CloseNow()
	conn.SetReadLimit(1 << 22)
	notices := 0
	done := make(chan error, 1)
	go func() {
		for {
			_, b, err := conn.Read(ctx)
			if err != nil {
				done <- err
				return
			}
			if m, err := decodeServer(b); err == nil {
				switch m := m.(type) {
				case *mocrelay.ServerNoticeMsg:
					notices++
				case *mocrelay.ServerCountMsg:
					if m.SubscriptionID == sentinelSub {
						done <- nil
						return
					}
				}
			}
		}
	}()
	for _, t := range texts {
		if err := conn.Write(ctx, websocket.MessageText, []byte(t)); err != nil {
			run.Violate("gate:connection dropped while well-formed messages were being sent", err.Error(), map[string]any{"text": t})
			return
		}
	}
	if err := conn.Write(ctx, websocket.MessageText, []byte(`["COUNT","`+sentinelSub+`",{}]`)); err != nil {
		run.Violate("gate:connection dropped while well-formed messages were being sent", err.Error(), nil)
		return
	}
	if err := <-done; err != nil {
		run.Violate("gate:connection ended before the final reply", err.Error(), nil)
		return
	}
	h.mu.Lock()
	defer h.mu.Unlock()
	run.Add("messages_through_the_relay", int64(len(texts)))
	got := h.received
	if len(got) > 0 {
		got = got[:len(got)-1] // the sentinel
	}
	for i, t := range texts {
		want, err := mocrelay.ParseClientMsg([]byte(t))
		if err != nil {
			continue
		}
		if i >= len(got) || !reflect.DeepEqual(got[i], want) {
			run.Violate("gate:well-formed message did not reach the handler behind the relay",
				fmt.Sprintf("message %d of %d (%s): the handler received %d messages, %d NOTICEs were sent", i, len(texts), trunc([]byte(t)), len(got), notices),
				map[string]any{"text": t})
			return
		}
	}
}
