package checks

import (
	"context"
	"encoding/json"
	"fmt"
	"math/rand"
	"sync"
	"time"

	"github.com/high-moctane/mocrelay"

	"verif/harness/internal/abs"
	"verif/harness/internal/core"
	"verif/harness/internal/tlcrun"
	"verif/harness/internal/tv"
)

var routerTraceSpec = tv.Spec{Module: "RouterTrace", Config: "RouterTrace.cfg"}

type rrec struct {
	mu    sync.Mutex
	lines []any
}

func (r *rrec) log(t string, c int, m map[string]any) {
	r.mu.Lock()
	r.lines = append(r.lines, map[string]any{"op": "ev", "t": t, "c": c, "m": m, "shape": t + " " + fmt.Sprint(m["k"])})
	r.mu.Unlock()
}

func rmsg(k string) map[string]any {
	return map[string]any{"k": k, "sub": "", "id": "", "acc": false, "fs": []abs.Filter{}, "ev": dummyEv}
}

type rconn struct {
	id     int
	ctx    context.Context
	cancel context.CancelFunc
	send   chan mocrelay.ServerMsg
	recv   chan mocrelay.ClientMsg
	done   chan error
	rec    *rrec
	conc   *abs.Conc
	evOf   func(string) (abs.Event, bool)

	mu       sync.Mutex
	eose     map[string]int
	oks      map[string]int
	gotEv    map[string]bool
	stallFor time.Duration
	stallAt  int
	ngot     int
	ended    bool
}

func (c *rconn) reader() {
	for {
		select {
		case <-c.ctx.Done():
			return
		case m := <-c.send:
			a := rmsg("OTHER")
			switch m := m.(type) {
			case *mocrelay.ServerEOSEMsg:
				a = rmsg("EOSE")
				a["sub"] = m.SubscriptionID
			case *mocrelay.ServerOKMsg:
				a = rmsg("OK")
				a["id"] = c.conc.Label(m.EventID)
				a["acc"] = m.Accepted
			case *mocrelay.ServerEventMsg:
				a = rmsg("SEVENT")
				a["sub"] = m.SubscriptionID
				l := c.conc.Label(m.Event.ID)
				a["id"] = l
				if e, ok := c.evOf(l); ok && abs.TS(e.TS) == m.Event.CreatedAt && e.Kind == m.Event.Kind {
					a["ev"] = e
				} else {
					a["ev"] = abs.Event{ID: "?changed"}
				}
			case *mocrelay.ServerCountMsg:
				a = rmsg("SCOUNT")
				a["sub"] = m.SubscriptionID
			}
			c.rec.log("got", c.id, a)
			c.mu.Lock()
			switch a["k"] {
			case "EOSE":
				c.eose[a["sub"].(string)]++
			case "OK":
				c.oks[a["id"].(string)]++
			case "SEVENT":
				c.gotEv[a["sub"].(string)+"|"+a["id"].(string)] = true
			}
			c.ngot++
			stall := c.stallFor > 0 && c.ngot == c.stallAt
			d := c.stallFor
			c.mu.Unlock()
			if stall {
				c.rec.log("stall", c.id, rmsg("STALL"))
				select {
				case <-time.After(d):
				case <-c.ctx.Done():
					return
				}
			}
		}
	}
}

func (c *rconn) wait(cond func() bool, d time.Duration) bool {
	dl := time.Now().Add(d)
	for time.Now().Before(dl) {
		c.mu.Lock()
		ok := cond()
		c.mu.Unlock()
		if ok {
			return true
		}
		time.Sleep(20 * time.Microsecond)
	}
	return false
}

func (c *rconn) offer(m mocrelay.ClientMsg, a map[string]any) bool {
	c.rec.log("snd", c.id, a)
	select {
	case c.recv <- m:
		return true
	case <-c.ctx.Done():
		return false
	case <-time.After(5 * time.Second):
		return false
	}
}

// runRouterScenario: K connections with seeded programs on one RouterHandler.
func runRouterScenario(run *core.Run, seed int64, stallScenario bool) (tv.Trace, string) {
	r := rand.New(rand.NewSource(seed))
	conc := abs.NewConc()
	rec := &rrec{}
	buflen := 1024
	if stallScenario {
		buflen = 1 + r.Intn(2)
	}
	router := mocrelay.NewRouterHandler(buflen)
	var evMu sync.Mutex
	evs := map[string]abs.Event{}
	evOf := func(l string) (abs.Event, bool) { evMu.Lock(); defer evMu.Unlock(); e, ok := evs[l]; return e, ok }
	K := 3 + r.Intn(3)
	var conns []*rconn
	root, rootCancel := context.WithCancel(context.Background())
	defer rootCancel()
	for i := 1; i <= K; i++ {
		ctx, cancel := context.WithCancel(root)
		c := &rconn{id: i, ctx: ctx, cancel: cancel, send: make(chan mocrelay.ServerMsg), recv: make(chan mocrelay.ClientMsg), done: make(chan error, 1),
			rec: rec, conc: conc, evOf: evOf, eose: map[string]int{}, oks: map[string]int{}, gotEv: map[string]bool{}}
		if stallScenario && i == 1 {
			c.stallFor = time.Hour // stops reading for good after a few messages
			c.stallAt = 2 + r.Intn(2)
		}
		conns = append(conns, c)
		go func() { c.done <- router.ServeNostr(c.ctx, c.send, c.recv) }()
		go c.reader()
	}
	filterChoices := [][]abs.Filter{
		{{}},
		{{Kinds: abs.IntSet{P: true, S: []int64{1}}}},
		{{Kinds: abs.IntSet{P: true, S: []int64{2}}}, {Authors: abs.StrSet{P: true, S: []string{"b"}}}},
		{{Authors: abs.StrSet{P: true, S: []string{"a"}}, Kinds: abs.IntSet{P: true, S: []int64{1, 2}}}},
		{{Since: abs.OptInt{P: true, V: 3}}},
		{{Kinds: abs.IntSet{P: true, S: []int64{7}}}},
		// limit bounds the stored answer only: a subscription whose filters all say limit 0 is a live subscription
		{{Limit: abs.OptInt{P: true, V: 0}}},
		{{Kinds: abs.IntSet{P: true, S: []int64{1}}, Limit: abs.OptInt{P: true, V: 0}}, {Authors: abs.StrSet{P: true, S: []string{"b"}}, Limit: abs.OptInt{P: true, V: 1}}},
	}
	problem := ""
	var pmu sync.Mutex
	setProblem := func(s string) {
		pmu.Lock()
		if problem == "" {
			problem = s
		}
		pmu.Unlock()
	}
	var wg sync.WaitGroup
	var evCounter int
	for _, c := range conns {
		wg.Add(1)
		go func(c *rconn, rr *rand.Rand) {
			defer wg.Done()
			nreq := map[string]int{}
			steps := 3 + rr.Intn(6)
			if c.stallFor > 0 {
				// the subscriber that will stop reading: one match-everything subscription, nothing else
				a := rmsg("REQ")
				a["sub"] = "s0"
				a["fs"] = abs.NormFilters(filterChoices[0])
				c.offer(&mocrelay.ClientReqMsg{SubscriptionID: "s0", ReqFilters: conc.Filters(filterChoices[0])}, a)
				return
			}
			if stallScenario {
				steps += 4
			}
			for i := 0; i < steps; i++ {
				if rr.Intn(3) == 0 {
					time.Sleep(time.Duration(rr.Intn(200)) * time.Microsecond)
				}
				switch k := rr.Intn(10); {
				case k < 4:
					s := fmt.Sprintf("s%d", rr.Intn(2))
					fs := filterChoices[rr.Intn(len(filterChoices))]
					a := rmsg("REQ")
					a["sub"] = s
					a["fs"] = abs.NormFilters(fs)
					if !c.offer(&mocrelay.ClientReqMsg{SubscriptionID: s, ReqFilters: conc.Filters(fs)}, a) {
						return
					}
					nreq[s]++
					if rr.Intn(4) != 0 {
						n := nreq[s]
						if !c.wait(func() bool { return c.eose[s] >= n }, 3*time.Second) {
							setProblem(fmt.Sprintf("connection %d: REQ %s not answered by EOSE within 3s", c.id, s))
							return
						}
					}
				case k < 8:
					evMu.Lock()
					evCounter++
					e := abs.Event{ID: fmt.Sprintf("p%d", evCounter), Author: []string{"a", "b"}[rr.Intn(2)], Kind: int64(1 + rr.Intn(2)), TS: int64(1 + rr.Intn(5))}
					evs[e.ID] = e
					evMu.Unlock()
					a := rmsg("EVENT")
					a["id"] = e.ID
					a["ev"] = e
					if !c.offer(&mocrelay.ClientEventMsg{Event: conc.Event(e, "live")}, a) {
						return
					}
					if c.id > 2 && !stallScenario && rr.Intn(5) == 0 {
						// hit and run: the publisher goes away as soon as the router has taken the EVENT
						c.rec.log("end", c.id, rmsg("END"))
						c.mu.Lock()
						c.ended = true
						c.mu.Unlock()
						c.cancel()
						return
					}
					// a publisher is never delayed by other connections: OK within 3 s
					if !c.wait(func() bool { return c.oks[e.ID] >= 1 }, 2*time.Second) {
						setProblem(fmt.Sprintf("publisher %d: EVENT %s not acknowledged within 2s (stall scenario: %v)", c.id, e.ID, stallScenario))
						return
					}
				case k == 8:
					s := fmt.Sprintf("s%d", rr.Intn(2))
					a := rmsg("CLOSE")
					a["sub"] = s
					if !c.offer(&mocrelay.ClientCloseMsg{SubscriptionID: s}, a) {
						return
					}
				default:
					if c.id > 2 && rr.Intn(2) == 0 { // some connections go away mid-stream
						c.rec.log("end", c.id, rmsg("END"))
						c.mu.Lock()
						c.ended = true
						c.mu.Unlock()
						c.cancel()
						return
					}
				}
			}
		}(c, rand.New(rand.NewSource(seed*131+int64(c.id))))
	}
	wg.Wait()
	tr := tv.Trace{Name: fmt.Sprintf("router-seed%d-stall%v-buf%d", seed, stallScenario, buflen)}
	tr.Lines = append(tr.Lines, map[string]any{"op": "reset"})
	// drain: every live connection subscribes to the sentinel, then one publishes it
	complete := problem == "" && !stallScenario // with a 1-2 slot buffer any connection may overflow: no completeness claim
	if complete {
		fs := []abs.Filter{{Kinds: abs.IntSet{P: true, S: []int64{9}}}}
		var live []*rconn
		for _, c := range conns {
			if !c.ended {
				live = append(live, c)
			}
		}
		for _, c := range live {
			a := rmsg("REQ")
			a["sub"] = "zz"
			a["fs"] = abs.NormFilters(fs)
			if !c.offer(&mocrelay.ClientReqMsg{SubscriptionID: "zz", ReqFilters: conc.Filters(fs)}, a) ||
				!c.wait(func() bool { return c.eose["zz"] >= 1 }, 3*time.Second) {
				complete = false
				setProblem(fmt.Sprintf("connection %d: sentinel REQ not answered", c.id))
			}
		}
		if complete && len(live) > 0 {
			p := live[0]
			for _, id := range []string{"z1", "z2"} {
				mk := abs.Event{ID: id, Author: "z", Kind: 9, TS: 9}
				evMu.Lock()
				evs[id] = mk
				evMu.Unlock()
				a := rmsg("EVENT")
				a["id"] = id
				a["ev"] = mk
				if !p.offer(&mocrelay.ClientEventMsg{Event: conc.Event(mk, "drain")}, a) ||
					!p.wait(func() bool { return p.oks[id] >= 1 }, 3*time.Second) {
					complete = false
					setProblem(fmt.Sprintf("publisher %d: drain marker not acknowledged", p.id))
				}
			}
			for _, c := range live {
				if !c.wait(func() bool { return c.gotEv["zz|z2"] }, 3*time.Second) {
					complete = false
					setProblem(fmt.Sprintf("connection %d did not receive the drain marker", c.id))
				}
			}
		}
	}
	rootCancel()
	for _, c := range conns {
		select {
		case <-c.done:
		case <-time.After(3 * time.Second):
			setProblem(fmt.Sprintf("connection %d: ServeNostr did not return after cancel", c.id))
		}
	}
	rec.mu.Lock()
	tr.Lines = append(tr.Lines, rec.lines...)
	rec.mu.Unlock()
	if complete {
		tr.Lines = append(tr.Lines, map[string]any{"op": "quiesce", "shape": "quiesce: a must-deliver event / EOSE / OK is missing"})
	}
	return tr, problem
}

// runRouterChurn: publications race with registry writes. Two long-open match-everything
// subscribers; one of them keeps opening and closing a second (never matching) subscription;
// hidden connections connect, subscribe (never matching) and disconnect all the time; two
// publishers publish unique events. The hidden connections never receive an event and are left
// out of the trace; everything else is observed as in runRouterScenario.
func runRouterChurn(run *core.Run, seed int64, npub int) (tv.Trace, string) {
	r := rand.New(rand.NewSource(seed))
	conc := abs.NewConc()
	rec := &rrec{}
	router := mocrelay.NewRouterHandler(4096)
	var evMu sync.Mutex
	evs := map[string]abs.Event{}
	evOf := func(l string) (abs.Event, bool) { evMu.Lock(); defer evMu.Unlock(); e, ok := evs[l]; return e, ok }
	root, rootCancel := context.WithCancel(context.Background())
	defer rootCancel()
	var conns []*rconn
	for i := 1; i <= 4; i++ {
		ctx, cancel := context.WithCancel(root)
		c := &rconn{id: i, ctx: ctx, cancel: cancel, send: make(chan mocrelay.ServerMsg), recv: make(chan mocrelay.ClientMsg), done: make(chan error, 1),
			rec: rec, conc: conc, evOf: evOf, eose: map[string]int{}, oks: map[string]int{}, gotEv: map[string]bool{}}
		conns = append(conns, c)
		go func() { c.done <- router.ServeNostr(c.ctx, c.send, c.recv) }()
		go c.reader()
	}
	problem := ""
	var pmu sync.Mutex
	setProblem := func(s string) {
		pmu.Lock()
		if problem == "" {
			problem = s
		}
		pmu.Unlock()
	}
	all := []abs.Filter{{}}
	never := []abs.Filter{{Kinds: abs.IntSet{P: true, S: []int64{7}}}}
	req := func(c *rconn, sub string, fs []abs.Filter, n int) bool {
		a := rmsg("REQ")
		a["sub"] = sub
		a["fs"] = abs.NormFilters(fs)
		return c.offer(&mocrelay.ClientReqMsg{SubscriptionID: sub, ReqFilters: conc.Filters(fs)}, a) &&
			c.wait(func() bool { return c.eose[sub] >= n }, 3*time.Second)
	}
	for _, c := range conns[:2] {
		if !req(c, "s0", all, 1) {
			setProblem(fmt.Sprintf("connection %d: REQ s0 not answered by EOSE within 3s", c.id))
		}
	}
	stop := make(chan struct{})
	var bg sync.WaitGroup
	// hidden connections: connect, subscribe, disconnect
	for h := 0; h < 4; h++ {
		bg.Add(1)
		go func() {
			defer bg.Done()
			fs := conc.Filters(never)
			for {
				select {
				case <-stop:
					return
				default:
				}
				ctx, cancel := context.WithCancel(root)
				send := make(chan mocrelay.ServerMsg, 4)
				recv := make(chan mocrelay.ClientMsg)
				done := make(chan error, 1)
				go func() { done <- router.ServeNostr(ctx, send, recv) }()
				select {
				case recv <- &mocrelay.ClientReqMsg{SubscriptionID: "h", ReqFilters: fs}:
					select {
					case <-send:
					case <-time.After(time.Second):
					}
				case <-time.After(time.Second):
				}
				cancel()
				<-done
			}
		}()
	}
	// the second subscriber toggles another subscription
	bg.Add(1)
	go func() {
		defer bg.Done()
		c := conns[1]
		for n := 1; n <= 30; n++ {
			select {
			case <-stop:
				return
			default:
			}
			if !req(c, "s1", never, n) {
				setProblem("connection 2: REQ s1 not answered by EOSE within 3s")
				return
			}
			a := rmsg("CLOSE")
			a["sub"] = "s1"
			if !c.offer(&mocrelay.ClientCloseMsg{SubscriptionID: "s1"}, a) {
				return
			}
		}
	}()
	var wg sync.WaitGroup
	var evCounter int
	for _, c := range conns[2:] {
		wg.Add(1)
		go func(c *rconn, rr *rand.Rand) {
			defer wg.Done()
			for i := 0; i < npub; i++ {
				evMu.Lock()
				evCounter++
				e := abs.Event{ID: fmt.Sprintf("p%d", evCounter), Author: []string{"a", "b"}[rr.Intn(2)], Kind: int64(1 + rr.Intn(2)), TS: int64(1 + rr.Intn(5))}
				evs[e.ID] = e
				evMu.Unlock()
				a := rmsg("EVENT")
				a["id"] = e.ID
				a["ev"] = e
				if !c.offer(&mocrelay.ClientEventMsg{Event: conc.Event(e, "live")}, a) {
					return
				}
				if !c.wait(func() bool { return c.oks[e.ID] >= 1 }, 2*time.Second) {
					setProblem(fmt.Sprintf("publisher %d: EVENT %s not acknowledged within 2s (churn scenario)", c.id, e.ID))
					return
				}
			}
		}(c, rand.New(rand.NewSource(r.Int63())))
	}
	wg.Wait()
	close(stop)
	bg.Wait()
	tr := tv.Trace{Name: fmt.Sprintf("router-churn-seed%d", seed)}
	tr.Lines = append(tr.Lines, map[string]any{"op": "reset"})
	complete := problem == ""
	if complete {
		fs := []abs.Filter{{Kinds: abs.IntSet{P: true, S: []int64{9}}}}
		for _, c := range conns {
			if !req(c, "zz", fs, 1) {
				complete = false
				setProblem(fmt.Sprintf("connection %d: sentinel REQ not answered", c.id))
			}
		}
		if complete {
			p := conns[2]
			for _, id := range []string{"z1", "z2"} {
				mk := abs.Event{ID: id, Author: "z", Kind: 9, TS: 9}
				evMu.Lock()
				evs[id] = mk
				evMu.Unlock()
				a := rmsg("EVENT")
				a["id"] = id
				a["ev"] = mk
				if !p.offer(&mocrelay.ClientEventMsg{Event: conc.Event(mk, "drain")}, a) ||
					!p.wait(func() bool { return p.oks[id] >= 1 }, 3*time.Second) {
					complete = false
					setProblem(fmt.Sprintf("publisher %d: drain marker not acknowledged", p.id))
				}
			}
			for _, c := range conns {
				if !c.wait(func() bool { return c.gotEv["zz|z2"] }, 3*time.Second) {
					complete = false
					setProblem(fmt.Sprintf("connection %d did not receive the drain marker", c.id))
				}
			}
		}
	}
	rootCancel()
	for _, c := range conns {
		select {
		case <-c.done:
		case <-time.After(3 * time.Second):
			setProblem(fmt.Sprintf("connection %d: ServeNostr did not return after cancel", c.id))
		}
	}
	rec.mu.Lock()
	tr.Lines = append(tr.Lines, rec.lines...)
	rec.mu.Unlock()
	if complete {
		tr.Lines = append(tr.Lines, map[string]any{"op": "quiesce", "shape": "quiesce: a must-deliver event / EOSE / OK is missing"})
	}
	return tr, problem
}

// runRouterWide: several hundred hidden (unlogged, draining) connections subscribed to everything make
// a publication's fan-out long; a logged publisher publishes, and the moment it has seen the OK a logged
// subscriber (which already has a registry entry) opens a fresh subscription for the same kind.
func runRouterWide(run *core.Run, seed int64) (tv.Trace, string) {
	r := rand.New(rand.NewSource(seed))
	conc := abs.NewConc()
	rec := &rrec{}
	router := mocrelay.NewRouterHandler(4096)
	var evMu sync.Mutex
	evs := map[string]abs.Event{}
	evOf := func(l string) (abs.Event, bool) { evMu.Lock(); defer evMu.Unlock(); e, ok := evs[l]; return e, ok }
	root, rootCancel := context.WithCancel(context.Background())
	defer rootCancel()
	all := conc.Filters([]abs.Filter{{}})
	var hwg sync.WaitGroup
	for h := 0; h < 500; h++ {
		send := make(chan mocrelay.ServerMsg, 1)
		recv := make(chan mocrelay.ClientMsg)
		hwg.Add(2)
		go func() { defer hwg.Done(); router.ServeNostr(root, send, recv) }()
		go func() {
			defer hwg.Done()
			for {
				select {
				case <-send:
				case <-root.Done():
					return
				}
			}
		}()
		select {
		case recv <- &mocrelay.ClientReqMsg{SubscriptionID: "h", ReqFilters: all}:
		case <-time.After(2 * time.Second):
		}
	}
	var conns []*rconn
	for i := 1; i <= 2; i++ {
		ctx, cancel := context.WithCancel(root)
		c := &rconn{id: i, ctx: ctx, cancel: cancel, send: make(chan mocrelay.ServerMsg), recv: make(chan mocrelay.ClientMsg), done: make(chan error, 1),
			rec: rec, conc: conc, evOf: evOf, eose: map[string]int{}, oks: map[string]int{}, gotEv: map[string]bool{}}
		conns = append(conns, c)
		go func() { c.done <- router.ServeNostr(c.ctx, c.send, c.recv) }()
		go c.reader()
	}
	pub, late := conns[0], conns[1]
	problem := ""
	req := func(c *rconn, sub string, fs []abs.Filter) bool {
		a := rmsg("REQ")
		a["sub"] = sub
		a["fs"] = abs.NormFilters(fs)
		return c.offer(&mocrelay.ClientReqMsg{SubscriptionID: sub, ReqFilters: conc.Filters(fs)}, a) &&
			c.wait(func() bool { return c.eose[sub] >= 1 }, 3*time.Second)
	}
	kind1 := []abs.Filter{{Kinds: abs.IntSet{P: true, S: []int64{1}}}}
	if !req(late, "s0", []abs.Filter{{Kinds: abs.IntSet{P: true, S: []int64{7}}}}) {
		problem = "connection 2: REQ s0 not answered by EOSE within 3s"
	}
	for k := 1; k <= 8 && problem == ""; k++ {
		e := abs.Event{ID: fmt.Sprintf("w%d", k), Author: "a", Kind: 1, TS: int64(1 + r.Intn(5))}
		evMu.Lock()
		evs[e.ID] = e
		evMu.Unlock()
		a := rmsg("EVENT")
		a["id"] = e.ID
		a["ev"] = e
		if !pub.offer(&mocrelay.ClientEventMsg{Event: conc.Event(e, "live")}, a) {
			problem = "publisher: EVENT not taken"
			break
		}
		// spin (no sleep) until the OK has been seen, then open the new subscription at once
		for dl := time.Now().Add(2 * time.Second); ; {
			pub.mu.Lock()
			ok := pub.oks[e.ID] >= 1
			pub.mu.Unlock()
			if ok {
				break
			}
			if time.Now().After(dl) {
				problem = fmt.Sprintf("publisher 1: EVENT %s not acknowledged within 2s (wide scenario)", e.ID)
				break
			}
		}
		if problem == "" && !req(late, fmt.Sprintf("n%d", k), kind1) {
			problem = fmt.Sprintf("connection 2: REQ n%d not answered by EOSE within 3s", k)
		}
	}
	tr := tv.Trace{Name: fmt.Sprintf("router-wide-seed%d", seed)}
	tr.Lines = append(tr.Lines, map[string]any{"op": "reset"})
	complete := problem == ""
	if complete {
		fs := []abs.Filter{{Kinds: abs.IntSet{P: true, S: []int64{9}}}}
		for _, c := range conns {
			if !req(c, "zz", fs) {
				complete = false
				problem = fmt.Sprintf("connection %d: sentinel REQ not answered", c.id)
			}
		}
		for _, id := range []string{"z1", "z2"} {
			if !complete {
				break
			}
			mk := abs.Event{ID: id, Author: "z", Kind: 9, TS: 9}
			evMu.Lock()
			evs[id] = mk
			evMu.Unlock()
			a := rmsg("EVENT")
			a["id"] = id
			a["ev"] = mk
			if !pub.offer(&mocrelay.ClientEventMsg{Event: conc.Event(mk, "drain")}, a) ||
				!pub.wait(func() bool { return pub.oks[id] >= 1 }, 3*time.Second) {
				complete = false
				problem = "publisher 1: drain marker not acknowledged"
			}
		}
		for _, c := range conns {
			if complete && !c.wait(func() bool { return c.gotEv["zz|z2"] }, 3*time.Second) {
				complete = false
				problem = fmt.Sprintf("connection %d did not receive the drain marker", c.id)
			}
		}
	}
	rootCancel()
	for _, c := range conns {
		select {
		case <-c.done:
		case <-time.After(3 * time.Second):
			problem = fmt.Sprintf("connection %d: ServeNostr did not return after cancel", c.id)
		}
	}
	hwg.Wait()
	rec.mu.Lock()
	tr.Lines = append(tr.Lines, rec.lines...)
	rec.mu.Unlock()
	if complete {
		tr.Lines = append(tr.Lines, map[string]any{"op": "quiesce", "shape": "quiesce: a must-deliver event / EOSE / OK is missing"})
	}
	return tr, problem
}


// runRouterPacedStall: the clause "a subscriber that stops reading loses only its own deliveries".
// buflen 1-3; connection 1 subscribes to everything and stops reading for good after 2-3 messages;
// 2-3 healthy connections subscribe to everything and keep reading; one publisher publishes one event
// at a time and goes on only when every healthy subscriber has received it, so that a healthy
// connection's queue never holds more than one event -- none of them can overflow, and the drained end
// may demand completeness for them (RouterObs exempts the stalled connection, nobody else).
func runRouterPacedStall(run *core.Run, seed int64) (tv.Trace, string) {
	r := rand.New(rand.NewSource(seed))
	conc := abs.NewConc()
	rec := &rrec{}
	buflen := 1 + r.Intn(3)
	router := mocrelay.NewRouterHandler(buflen)
	var evMu sync.Mutex
	evs := map[string]abs.Event{}
	evOf := func(l string) (abs.Event, bool) { evMu.Lock(); defer evMu.Unlock(); e, ok := evs[l]; return e, ok }
	root, rootCancel := context.WithCancel(context.Background())
	defer rootCancel()
	nHealthy := 2 + r.Intn(2)
	var conns []*rconn
	for i := 1; i <= nHealthy+2; i++ {
		ctx, cancel := context.WithCancel(root)
		c := &rconn{id: i, ctx: ctx, cancel: cancel, send: make(chan mocrelay.ServerMsg), recv: make(chan mocrelay.ClientMsg), done: make(chan error, 1),
			rec: rec, conc: conc, evOf: evOf, eose: map[string]int{}, oks: map[string]int{}, gotEv: map[string]bool{}}
		if i == 1 {
			c.stallFor = time.Hour
			c.stallAt = 2 + r.Intn(2)
		}
		conns = append(conns, c)
		go func() { c.done <- router.ServeNostr(c.ctx, c.send, c.recv) }()
		go c.reader()
	}
	stalled, healthy, pub := conns[0], conns[1:1+nHealthy], conns[nHealthy+1]
	problem := ""
	all := []abs.Filter{{}}
	tr := tv.Trace{Name: fmt.Sprintf("router-paced-stall-seed%d-buf%d", seed, buflen)}
	tr.Lines = append(tr.Lines, map[string]any{"op": "reset"})
	complete := true
	nsubs := map[int]int{}
	for _, c := range append([]*rconn{stalled}, healthy...) {
		// the healthy connections hold one or two subscriptions on their shared queue
		subs := []string{"s0"}
		if c != stalled && buflen >= 2 && r.Intn(2) == 0 {
			subs = append(subs, "s1") // two deliveries per publication still fit the queue
		}
		nsubs[c.id] = len(subs)
		for _, sub := range subs {
			a := rmsg("REQ")
			a["sub"] = sub
			a["fs"] = abs.NormFilters(all)
			if !c.offer(&mocrelay.ClientReqMsg{SubscriptionID: sub, ReqFilters: conc.Filters(all)}, a) ||
				!c.wait(func() bool { return c.eose[sub] >= 1 }, 3*time.Second) {
				complete = false
				problem = fmt.Sprintf("connection %d: REQ not answered", c.id)
			}
		}
	}
	publish := func(e abs.Event, what string) bool {
		evMu.Lock()
		evs[e.ID] = e
		evMu.Unlock()
		a := rmsg("EVENT")
		a["id"] = e.ID
		a["ev"] = e
		if !pub.offer(&mocrelay.ClientEventMsg{Event: conc.Event(e, what)}, a) || !pub.wait(func() bool { return pub.oks[e.ID] >= 1 }, 2*time.Second) {
			problem = fmt.Sprintf("publisher %d: EVENT not acknowledged within 2s while another connection is stalled", pub.id)
			return false
		}
		for _, c := range healthy {
			if !c.wait(func() bool { return c.gotEv["s0|"+e.ID] && (nsubs[c.id] < 2 || c.gotEv["s1|"+e.ID]) }, 2*time.Second) {
				return false // the drained end reports the missing delivery
			}
		}
		return true
	}
	n := stalled.stallAt + buflen + 4 + r.Intn(4)
	for k := 1; k <= n && complete && problem == ""; k++ {
		e := abs.Event{ID: fmt.Sprintf("p%d", k), Author: []string{"a", "b"}[r.Intn(2)], Kind: int64(1 + r.Intn(2)), TS: int64(1 + r.Intn(5))}
		if !publish(e, "live") {
			break
		}
	}
	rootCancel()
	for _, c := range conns {
		select {
		case <-c.done:
		case <-time.After(3 * time.Second):
			if problem == "" {
				problem = fmt.Sprintf("connection %d: ServeNostr did not return after cancel", c.id)
			}
		}
	}
	rec.mu.Lock()
	tr.Lines = append(tr.Lines, rec.lines...)
	rec.mu.Unlock()
	if complete && problem == "" {
		tr.Lines = append(tr.Lines, map[string]any{"op": "quiesce", "shape": "quiesce: a must-deliver event / EOSE / OK is missing (a healthy subscriber next to a stalled one)"})
	}
	return tr, problem
}

// C07: router.
func C07(run *core.Run) {
	// the mechanism model RouterMC composed with the RouterObs monitor, explored by TLC simulation
	num := 1500
	if run.Thorough() {
		num = 40000
	}
	if res, err := tlcrun.Run(tlcrun.Options{Module: "RouterMC", Config: "RouterMC.cfg", Workers: 16, Timeout: 30 * time.Minute,
		Simulate: fmt.Sprintf("num=%d", num), Depth: 50, Seed: run.Seed}); err != nil || !res.OK {
		tail := ""
		if res != nil {
			tail = res.Tail
		}
		run.Problem("TLC failed on / found an error in the mechanism model RouterMC (model error, not a verdict on the code): %v\n%s", err, tail)
	} else {
		run.Add("model_states", res.Generated)
		run.Add("model_behaviours", res.SimTraces)
	}
	if run.Thorough() {
		// every interleaving of two connections, two client messages each, one-slot queues: 44.4M states
		if res, err := tlcrun.Run(tlcrun.Options{Module: "RouterMC", Config: "RouterMC_ex.cfg", Workers: 16, Timeout: 60 * time.Minute, Heap: "24g"}); err != nil || !res.OK {
			tail := ""
			if res != nil {
				tail = res.Tail
			}
			run.Problem("TLC failed on / found an error in the exhaustive configuration of RouterMC (model error, not a verdict on the code): %v\n%s", err, tail)
		} else {
			run.Add("model_states_exhaustive", res.Distinct)
			run.Add("model_states", res.Generated)
		}
	}
	n := 120
	if run.Thorough() {
		n = 1200
	}
	var traces []tv.Trace
	distinct := core.NewDistinct()
	for i := 0; i < n; i++ {
		if run.Violations() >= 3 {
			break // enough evidence; every further stuck scenario would wait for its deadlines
		}
		tr, problem := runRouterScenario(run, run.Seed*100000+int64(i), i%4 == 3)
		if problem != "" {
			run.Violate("progress:"+stripDigits(problem), problem+" ("+tr.Name+")", map[string]any{"trace": tr.Lines})
		}
		if len(tr.Lines) > 220 {
			run.Add("scenarios_skipped_too_long", 1)
			continue
		}
		traces = append(traces, tr)
		distinct.Add(tr.Name)
		run.Add("observations", int64(len(tr.Lines)))
	}
	// publications racing with registry writes (connect / disconnect / REQ / CLOSE of others)
	nchurn, npub := 2, 30
	if run.Thorough() {
		nchurn, npub = 12, 40
	}
	for i := 0; i < nchurn && run.Violations() < 3; i++ {
		tr, problem := runRouterChurn(run, run.Seed*1000+int64(i), npub)
		if problem != "" {
			run.Violate("progress:"+stripDigits(problem), problem+" ("+tr.Name+")", map[string]any{"trace": tr.Lines})
		}
		traces = append(traces, tr)
		distinct.Add(tr.Name)
		run.Add("observations", int64(len(tr.Lines)))
		run.Add("churn_scenarios", 1)
	}
	// a wide fan-out: the accepting OK means the event has been handed to every subscription that was
	// registered; a subscription opened after the publisher saw the OK gets nothing of it
	npaced := 12
	if run.Thorough() {
		npaced = 300
	}
	for i := 0; i < npaced && run.Violations() < 3; i++ {
		tr, problem := runRouterPacedStall(run, run.Seed*9000+int64(i))
		if problem != "" {
			run.Violate("progress:"+stripDigits(problem), problem+" ("+tr.Name+")", map[string]any{"trace": tr.Lines})
		}
		traces = append(traces, tr)
		distinct.Add(tr.Name)
		run.Add("observations", int64(len(tr.Lines)))
		run.Add("paced_stall_scenarios", 1)
	}
	nwide := 2
	if run.Thorough() {
		nwide = 20
	}
	for i := 0; i < nwide && run.Violations() < 3; i++ {
		tr, problem := runRouterWide(run, run.Seed*7000+int64(i))
		if problem != "" {
			run.Violate("progress:"+stripDigits(problem), problem+" ("+tr.Name+")", map[string]any{"trace": tr.Lines})
		}
		traces = append(traces, tr)
		distinct.Add(tr.Name)
		run.Add("observations", int64(len(tr.Lines)))
		run.Add("wide_scenarios", 1)
	}
	out, err := tv.ValidateChunks(routerTraceSpec, nil, traces, 6, 40, 8)
	if out != nil {
		run.Add("traces_validated_against_impl", int64(out.Accepted+len(out.Rejects)))
		run.Add("trace_lines", int64(out.Lines))
		run.Add("states", out.TLCStates)
		run.Add("transitions", out.TLCTrans)
	}
	if err != nil {
		run.Problem("RouterTrace validation failed to run: %v", err)
	} else {
		for _, rj := range out.Rejects {
			b, _ := json.Marshal(rj.Line)
			run.Violate("trace:"+lineShape(rj.Line), fmt.Sprintf("%s line %d is not allowed by RouterObs: %s", rj.Trace.Name, rj.LineIdx, b),
				map[string]any{"trace": rj.Trace.Lines[:rj.LineIdx+1]})
		}
		if len(traces) > 0 {
			run.Sample(map[string]any{"name": traces[0].Name, "first_lines": traces[0].Lines[:min(8, len(traces[0].Lines))]})
			// canary: duplicate a delivery
			done := false
			for _, tr := range traces {
				var lines []any
				for _, l := range tr.Lines {
					lines = append(lines, l)
					m := l.(map[string]any)
					if !done && m["op"] == "ev" && m["t"] == "got" && m["m"].(map[string]any)["k"] == "SEVENT" {
						lines = append(lines, l)
						done = true
					}
				}
				if done {
					rej, err := tv.Rejects(routerTraceSpec, nil, tv.Trace{Name: "canary", Lines: lines})
					if err != nil {
						run.Problem("canary failed to run: %v", err)
					} else if !rej {
						run.Problem("canary (duplicated delivery) accepted by RouterTrace")
					} else {
						run.Add("canaries_rejected", 1)
					}
					break
				}
			}
			if !done {
				run.Problem("no delivery in any trace: scenarios are vacuous")
			}
		}
	}
	run.Set("rule", "seeded concurrent scenarios on one NewRouterHandler: 3-5 connections, each a goroutine with its own program (REQ over 6 filter lists on 2 subscription ids incl. re-REQ, CLOSE, EVENT with unique events, mid-stream cancel) and a reader goroutine; every 4th scenario has buflen 1-2 and a match-everything subscriber that stops reading for good after 2-3 messages; snd / got / end / stall observations are recorded in one total order; a sentinel subscription + event drains every queue; TLC validates every prefix against RouterObs!StepOK (each delivery justified by an open matching subscription with that label, once, unchanged, publisher order; OK accepting; EOSE per REQ) and the drained end against QuiesceOK (must-deliver pairs delivered, every REQ/EVENT answered); publishers must be acknowledged within 2 s whatever the other connections do; paced stall scenarios (buflen 1-3, one match-everything subscriber that stops reading, 2-3 healthy subscribers with one or two subscriptions each, one publisher that waits for the healthy deliveries before it goes on) demand completeness for every connection but the stalled one. distinct_nontrivial = distinct scenarios")
	run.Set("evaluations", run.Get("observations"))
	run.Set("distinct_nontrivial", distinct.Len())
	run.Assume = append(run.Assume, "a connection that ended or stalled is exempt from completeness (only its own deliveries may be dropped)", "event ids are unique per publication")
}

func stripDigits(s string) string {
	out := []rune{}
	for _, c := range s {
		if c < '0' || c > '9' {
			out = append(out, c)
		}
	}
	return string(out)
}
