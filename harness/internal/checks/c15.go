package checks

import (
	"context"
	"encoding/json"
	"fmt"
	"math/rand"
	"os"
	"path/filepath"
	"strings"
	"sync"
	"sync/atomic"
	"time"

	"github.com/high-moctane/mocrelay"

	"verif/harness/internal/abs"
	"verif/harness/internal/core"
	"verif/harness/internal/tv"
)

var storeLinSpec = tv.Spec{Module: "StoreLin", Config: "StoreLin.cfg", DFS: true, Timeout: 15 * time.Minute}
var findInvSpec = tv.Spec{Module: "FindInv", Config: "FindInv.cfg"}

// related events: versions of one address, a deletion request and its
// targets, two authors -- so that replacement, deletion, blocking and
// eviction race with each other and with queries.
func linUniverse(r *rand.Rand, prefix string) []abs.Event {
	p := func(s string) string { return prefix + s }
	return []abs.Event{
		{ID: p("r1"), Author: "a", Kind: 1, TS: 1},
		{ID: p("r2"), Author: "b", Kind: 1, TS: 2},
		{ID: p("p1"), Author: "a", Kind: 0, TS: 1}, {ID: p("p2"), Author: "a", Kind: 0, TS: 3},
		{ID: p("x1"), Author: "a", Kind: 30000, TS: 2, Tags: []abs.Tag{{Name: "d", Val: "x", N: 2}}},
		{ID: p("x2"), Author: "a", Kind: 30000, TS: 4, Tags: []abs.Tag{{Name: "d", Val: "x", N: 2}}},
		{ID: p("k1"), Author: "a", Kind: 5, TS: 3, Tags: []abs.Tag{{Name: "e", Val: p("r1"), N: 2}, {Name: "a", Val: "30000:a:x", N: 2}}},
		{ID: p("k2"), Author: "b", Kind: 5, TS: 5, Tags: []abs.Tag{{Name: "e", Val: p("r1"), N: 2}}},
		{ID: p("g1"), Author: "a", Kind: 20000, TS: 6},
	}
}

// linHistory runs one small concurrent history on a fresh EventCache.
func linHistory(r *rand.Rand, name string, viaHandler bool) tv.Trace {
	conc := abs.NewConc()
	cap := 2 + r.Intn(2)
	uni := linUniverse(r, "")
	tr := tv.Trace{Name: name}
	var mu sync.Mutex
	log := func(l map[string]any) {
		mu.Lock()
		tr.Lines = append(tr.Lines, l)
		mu.Unlock()
	}
	log(map[string]any{"op": "reset", "cap": cap})
	threads := 3 + r.Intn(2)
	type opT struct {
		kind string
		e    abs.Event
		fs   []abs.Filter
	}
	progs := make([][]opT, threads)
	filterChoices := [][]abs.Filter{{{}}, {{Authors: abs.StrSet{P: true, S: []string{"a"}}}}, {{Limit: abs.OptInt{P: true, V: 1}}}, {{Kinds: abs.IntSet{P: true, S: []int64{0, 30000}}}}, {{Kinds: abs.IntSet{P: true, S: []int64{5}}}, {Limit: abs.OptInt{P: true, V: 2}}}}
	for t := range progs {
		n := 3 + r.Intn(3)
		for i := 0; i < n; i++ {
			switch r.Intn(6) {
			case 0:
				progs[t] = append(progs[t], opT{kind: "find", fs: filterChoices[r.Intn(len(filterChoices))]})
			case 1:
				if !viaHandler {
					progs[t] = append(progs[t], opT{kind: "len"})
					continue
				}
				fallthrough
			default:
				progs[t] = append(progs[t], opT{kind: "add", e: uni[r.Intn(len(uni))]})
			}
		}
	}
	cache := mocrelay.NewEventCache(cap)
	var shared mocrelay.CacheHandler
	if viaHandler {
		shared = mocrelay.NewCacheHandler(cap)
	}
	start := make(chan struct{})
	var wg sync.WaitGroup
	for t := range progs {
		wg.Add(1)
		go func(t int) {
			defer wg.Done()
			var st storeAdapter = cacheAdapter{cache}
			if viaHandler {
				st = newHandlerAdapter(shared) // each thread is its own session on the shared handler
				defer st.Close()
			}
			<-start
			for i, op := range progs[t] {
				id := fmt.Sprintf("%s/t%d_%d", name, t, i)
				switch op.kind {
				case "add":
					ce := conc.Event(op.e, "c")
					log(map[string]any{"op": "call", "id": id, "kind": "add", "e": op.e, "fs": []abs.Filter{}, "shape": "call add"})
					added, _ := st.Add(ce)
					log(map[string]any{"op": "ret", "id": id, "added": added, "res": []string{}, "n": 0, "shape": "ret add " + cls(op.e.Kind)})
				case "find":
					cf := conc.Filters(op.fs)
					log(map[string]any{"op": "call", "id": id, "kind": "find", "e": dummyEv, "fs": abs.NormFilters(op.fs), "shape": "call find"})
					res, _ := st.Find(cf)
					log(map[string]any{"op": "ret", "id": id, "added": false, "res": conc.Labels(res), "n": 0, "shape": "ret find " + describeFilters(op.fs)})
				default:
					log(map[string]any{"op": "call", "id": id, "kind": "len", "e": dummyEv, "fs": []abs.Filter{}, "shape": "call len"})
					n, _ := st.Len()
					log(map[string]any{"op": "ret", "id": id, "added": false, "res": []string{}, "n": n, "shape": "ret len"})
				}
				if r := t + i; r%3 == 0 {
					time.Sleep(0)
				}
			}
		}(t)
	}
	close(start)
	wg.Wait()
	return tr
}

// bigMix: many goroutines, many operations; only the invariant clause and the race detector apply.
func bigMix(run *core.Run, r *rand.Rand, viaHandler bool) []any {
	conc := abs.NewConc()
	cap := 4 + r.Intn(5)
	cache := mocrelay.NewEventCache(cap)
	shared := mocrelay.NewCacheHandler(cap)
	var lines []any
	var mu sync.Mutex
	var wg sync.WaitGroup
	workers, ops := 16, 1500
	if run.Thorough() {
		ops = 10000
	}
	byID := map[string]abs.Event{}
	var gens []*Gen
	for w := 0; w < workers; w++ {
		g := NewGen(rand.New(rand.NewSource(r.Int63())), fmt.Sprintf("w%d_", w))
		g.MaxTS = 30
		gens = append(gens, g)
	}
	var idMu sync.Mutex
	for w := 0; w < workers; w++ {
		wg.Add(1)
		go func(w int) {
			defer wg.Done()
			g := gens[w]
			var st storeAdapter = cacheAdapter{cache}
			if viaHandler {
				st = newHandlerAdapter(shared)
				defer st.Close()
			}
			for i := 0; i < ops; i++ {
				if w%4 == 3 { // readers
					res, err := st.Find(matchAll)
					if err != nil {
						return
					}
					if i%97 == 0 {
						evs := []abs.Event{}
						idMu.Lock()
						for _, e := range res {
							evs = append(evs, byID[conc.Label(e.ID)])
						}
						idMu.Unlock()
						mu.Lock()
						lines = append(lines, map[string]any{"cap": cap, "res": evs, "shape": fmt.Sprintf("listing of %d events under concurrent writers", len(evs))})
						mu.Unlock()
					}
					continue
				}
				e := g.Offer()
				idMu.Lock()
				byID[e.ID] = e
				idMu.Unlock()
				st.Add(conc.Event(e, "c"))
				if i%50 == 0 {
					st.Len()
				}
			}
		}(w)
	}
	wg.Wait()
	run.Add("big_mix_operations", int64(workers*ops))
	return lines
}

// C15: race-free and linearizable shared stores.
func C15(run *core.Run) {
	r := run.Rand("c15")
	nh := 150
	if run.Thorough() {
		nh = 2500
	}
	distinct := core.NewDistinct()
	var traces []tv.Trace
	for i := 0; i < nh; i++ {
		tr := linHistory(r, fmt.Sprintf("lin-%d", i), i%5 == 4)
		traces = append(traces, tr)
		run.Add("operations", int64((len(tr.Lines)-1)/2))
		distinct.Add(fmt.Sprint(tr.Lines))
	}
	// pair races: an event and the deletion request of its author that names it, inserted by two
	// goroutines at the same moment while a third one lists; whatever the order, the listing never
	// shows both, and the flags must be explainable
	// pair races: many fast trials; every trial is a complete history, the first ones and every one whose
	// final listing shows both racing events are handed to TLC (StoreLin gives the verdict)
	npair, ntrial := 2*nh, 40*nh
	kept := 0
	for i := 0; i < ntrial; i++ {
		tr, both := pairRace(r, fmt.Sprintf("pair-%d", i))
		run.Add("pair_race_trials", 1)
		if i >= npair && !both || kept > npair+40 {
			continue
		}
		kept++
		traces = append(traces, tr)
		run.Add("operations", int64((len(tr.Lines)-1)/2))
		distinct.Add(fmt.Sprint(tr.Lines))
	}
	// validate in chunks so that one TLC run stays small
	for lo := 0; lo < len(traces); lo += 250 {
		hi := min(lo+250, len(traces))
		out, err := tv.Validate(storeLinSpec, nil, traces[lo:hi], 4)
		if out != nil {
			run.Add("traces_validated_against_impl", int64(out.Accepted+len(out.Rejects)))
			run.Add("trace_lines", int64(out.Lines))
			run.Add("states", out.TLCStates)
			run.Add("transitions", out.TLCTrans)
		}
		if err != nil {
			run.Problem("StoreLin validation failed to run: %v", err)
			break
		}
		for _, rj := range out.Rejects {
			b, _ := json.Marshal(rj.Line)
			run.Violate("not-linearizable:"+lineShape(rj.Line), fmt.Sprintf("%s: no sequential order consistent with real time explains the history up to line %d: %s", rj.Trace.Name, rj.LineIdx, b),
				map[string]any{"trace": rj.Trace.Lines})
		}
	}
	if len(traces) > 0 {
		run.Sample(map[string]any{"history": traces[0].Name, "lines": traces[0].Lines[:min(8, len(traces[0].Lines))]})
		// canary: a hand-made non-linearizable history (an Add reported as new twice for the same event, sequentially)
		e := abs.Event{ID: "cn1", Author: "a", Kind: 1, TS: 1}
		c := tv.Trace{Name: "canary", Lines: []any{
			map[string]any{"op": "reset", "cap": 2},
			map[string]any{"op": "call", "id": "c1", "kind": "add", "e": e, "fs": []abs.Filter{}},
			map[string]any{"op": "ret", "id": "c1", "added": true, "res": []string{}, "n": 0},
			map[string]any{"op": "call", "id": "c2", "kind": "add", "e": e, "fs": []abs.Filter{}},
			map[string]any{"op": "ret", "id": "c2", "added": true, "res": []string{}, "n": 0},
		}}
		if rej, err := tv.Rejects(storeLinSpec, nil, c); err != nil {
			run.Problem("canary failed to run: %v", err)
		} else if !rej {
			run.Problem("canary (non-linearizable history) accepted by StoreLin")
		} else {
			run.Add("canaries_rejected", 1)
		}
		// and the same event added concurrently by two threads, both reported new: also impossible
		c2 := tv.Trace{Name: "canary2", Lines: []any{
			map[string]any{"op": "reset", "cap": 2},
			map[string]any{"op": "call", "id": "c1", "kind": "add", "e": e, "fs": []abs.Filter{}},
			map[string]any{"op": "call", "id": "c2", "kind": "add", "e": e, "fs": []abs.Filter{}},
			map[string]any{"op": "ret", "id": "c1", "added": true, "res": []string{}, "n": 0},
			map[string]any{"op": "ret", "id": "c2", "added": true, "res": []string{}, "n": 0},
		}}
		if rej, err := tv.Rejects(storeLinSpec, nil, c2); err != nil {
			run.Problem("canary failed to run: %v", err)
		} else if !rej {
			run.Problem("canary2 (both concurrent Adds of one event reported new) accepted by StoreLin")
		} else {
			run.Add("canaries_rejected", 1)
		}
	}
	// large mixes: invariant clause judged by TLC, race detector on
	var inv []any
	inv = append(inv, bigMix(run, r, false)...)
	inv = append(inv, bigMix(run, r, true)...)
	if len(inv) > 0 {
		var itr []tv.Trace
		for i, l := range inv {
			itr = append(itr, tv.Trace{Name: fmt.Sprintf("listing-%d", i), Lines: []any{l}})
		}
		out, err := tv.Validate(findInvSpec, nil, itr, 4)
		if err != nil {
			run.Problem("FindInv validation failed to run: %v", err)
		} else {
			run.Add("listings_checked", int64(out.Accepted+len(out.Rejects)))
			for _, rj := range out.Rejects {
				b, _ := json.Marshal(rj.Line)
				run.Violate("listing-inconsistent", fmt.Sprintf("a query under concurrent writers returned a listing that violates the retention invariants: %s", trunc(b)), map[string]any{"line": rj.Line})
			}
		}
	}
	// race detector reports
	raceLog := os.Getenv("VERIF_RACE_LOG")
	if raceLog == "" {
		run.Problem("VERIF_RACE_LOG not set: the race detector's reports cannot be collected (run through bin/check)")
	} else {
		files, _ := filepath.Glob(raceLog + "*")
		races := 0
		for _, f := range files {
			b, _ := os.ReadFile(f)
			for _, rep := range strings.Split(string(b), "==================") {
				if strings.Contains(rep, "DATA RACE") && strings.Contains(rep, "github.com/high-moctane/mocrelay") {
					races++
					fn := "?"
					for _, ln := range strings.Split(rep, "\n") {
						if strings.Contains(ln, "github.com/high-moctane/mocrelay.") {
							fn = strings.TrimSpace(ln)
							if i := strings.Index(fn, "("); i > 0 {
								fn = fn[:i]
							}
							break
						}
					}
					run.Violate("data-race:"+fn, rep[:min(len(rep), 1500)], map[string]any{"report": rep})
				}
			}
		}
		run.Set("race_reports", int64(races))
		run.Set("race_detector", raceEnabled)
		if !raceEnabled {
			run.Problem("this binary was built without -race")
		}
	}
	_ = context.Background
	run.Set("rule", "seeded small concurrent histories (3-4 goroutines x 3-5 operations: Add of related events -- versions of one address, deletion requests and their targets, two authors, an ephemeral event -- Find over 5 filter lists, Len; capacity 2-3; every fifth history through concurrent sessions of one shared CacheHandler) are recorded with call / ret lines in one total order and TLC searches, depth first, for a linearisation in which every recorded result is allowed by the sequential Store specification (StoreLin); two hand-made non-linearizable histories must be rejected; large mixes (16 goroutines, direct and through handler sessions) run under the Go race detector and sampled listings are judged by TLC against the retention invariants (FindInv). distinct_nontrivial = distinct recorded small histories")
	run.Set("evaluations", run.Get("operations")+run.Get("big_mix_operations"))
	run.Set("distinct_nontrivial", distinct.Len())
	run.Assume = append(run.Assume, "absence of data races is observed dynamically by the Go race detector on these runs, not proved",
		"linearizability is decided per recorded small history; large mixes are only checked for the invariant clause")
}

func pairRace(r *rand.Rand, name string) (tv.Trace, bool) {
	conc := abs.NewConc()
	cap := 3
	x := abs.Event{ID: "x", Author: "a", Kind: []int64{1, 0, 30000}[r.Intn(3)], TS: 2}
	if x.Kind == 30000 {
		x.Tags = []abs.Tag{{Name: "d", Val: "x", N: 2}}
	}
	k := abs.Event{ID: "k", Author: "a", Kind: 5, TS: 3, Tags: []abs.Tag{{Name: "e", Val: "x", N: 2}}}
	if x.Kind == 30000 && r.Intn(2) == 0 {
		k.Tags = []abs.Tag{{Name: "a", Val: "30000:a:x", N: 2}} // the request names the address
	}
	findFs := []abs.Filter{{}}
	if r.Intn(3) == 0 {
		// variant: two versions of one address inserted at the same moment, listed by a query with two
		// overlapping filters (each filter must be answered from the same snapshot)
		x = abs.Event{ID: "x", Author: "a", Kind: 30000, TS: 2, Tags: []abs.Tag{{Name: "d", Val: "x", N: 2}}}
		k = abs.Event{ID: "k", Author: "a", Kind: 30000, TS: 4, Tags: []abs.Tag{{Name: "d", Val: "x", N: 2}}}
		findFs = []abs.Filter{{Kinds: abs.IntSet{P: true, S: []int64{30000}}}, {Authors: abs.StrSet{P: true, S: []string{"a"}}}}
	}
	cache := mocrelay.NewEventCache(cap)
	tr := tv.Trace{Name: name}
	var mu sync.Mutex
	log := func(l map[string]any) { mu.Lock(); tr.Lines = append(tr.Lines, l); mu.Unlock() }
	log(map[string]any{"op": "reset", "cap": cap})
	start := make(chan struct{})
	var wg sync.WaitGroup
	var ready atomic.Int32
	add := func(id string, e abs.Event) {
		defer wg.Done()
		ce := conc.Event(e, "c")
		<-start
		log(map[string]any{"op": "call", "id": name + "/" + id, "kind": "add", "e": e, "fs": []abs.Filter{}, "shape": "call add"})
		// both adders have logged their call: now enter Add at the same instant
		ready.Add(1)
		for t0 := time.Now(); ready.Load() < 2 && time.Since(t0) < 5*time.Millisecond; {
		}
		added := cache.Add(ce)
		log(map[string]any{"op": "ret", "id": name + "/" + id, "added": added, "res": []string{}, "n": 0, "shape": "ret add (event raced with its deletion request)"})
	}
	wg.Add(3)
	go add("x", x)
	go add("k", k)
	go func() {
		defer wg.Done()
		<-start
		for i := 0; i < 3; i++ {
			id := fmt.Sprintf("%s/f%d", name, i)
			log(map[string]any{"op": "call", "id": id, "kind": "find", "e": dummyEv, "fs": abs.NormFilters(findFs), "shape": "call find"})
			res := cache.Find(conc.Filters(findFs))
			log(map[string]any{"op": "ret", "id": id, "added": false, "res": conc.Labels(res), "n": 0, "shape": "ret find (event raced with its deletion request)"})
		}
	}()
	close(start)
	wg.Wait()
	// the final state, after everything returned
	id := name + "/final"
	log(map[string]any{"op": "call", "id": id, "kind": "find", "e": dummyEv, "fs": abs.NormFilters([]abs.Filter{{}}), "shape": "call find"})
	res := cache.Find(matchAll)
	final := conc.Labels(res)
	log(map[string]any{"op": "ret", "id": id, "added": false, "res": final, "n": 0, "shape": "ret final listing (event raced with its deletion request)"})
	return tr, len(final) >= 2
}
