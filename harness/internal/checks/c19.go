package checks

import (
	"errors"
	"context"
	"encoding/json"
	"fmt"
	"github.com/coder/websocket"
	"net"
	"net/http"
	"os"
	"path/filepath"
	"reflect"
	"strings"
	"sync"
	"sync/atomic"
	"time"

	"github.com/high-moctane/mocrelay"
	mocprom "github.com/high-moctane/mocrelay/middleware/prometheus"
	"github.com/prometheus/client_golang/prometheus"

	"verif/harness/internal/abs"
	"verif/harness/internal/core"
	"verif/harness/internal/tlcrun"
	"verif/harness/internal/tv"
)

var metricsTraceSpec = tv.Spec{Module: "MetricsTrace", Config: "MetricsTrace.cfg"}

// scriptHandler: downstream of the metrics middleware. It records what it
// receives and what it emits; its replies make every step end observably.
//
//	REQ s            -> EOSE s          (REQ "rej:..." -> CLOSED instead)
//	CLOSE "srv:<s>"  -> CLOSED <s>, NOTICE      (the server ends subscription s)
//	CLOSE s          -> NOTICE
//	REQ "race:<s>"   -> EOSE, a short pause, CLOSED race:<s>, NOTICE   (crosses the client's CLOSE)
//	EVENT            -> OK ; COUNT -> COUNT ; AUTH -> AUTH challenge
type scriptHandler struct {
	mu       sync.Mutex
	received []mocrelay.ClientMsg
	emitted  []mocrelay.ServerMsg
	races    int
	gate     atomic.Int32
	nClosed  int
}

// every machine-readable prefix (and none, and an unknown one) in turn: ending a subscription does not depend on the reason given
var c19Prefixes = []string{"", mocrelay.MachineReadablePrefixDuplicate, mocrelay.MachineReadablePrefixError, mocrelay.MachineReadablePrefixBlocked,
	mocrelay.MachineReadablePrefixRateLimited, mocrelay.MachineReadablePrefixInvalid, mocrelay.MachineReadablePrefixPoW, "auth-required: ", "restricted: "}

func (h *scriptHandler) closed(sub, why string) mocrelay.ServerMsg {
	h.nClosed++
	return mocrelay.NewServerClosedMsg(sub, c19Prefixes[h.nClosed%len(c19Prefixes)], why)
}

func (h *scriptHandler) ServeNostr(ctx context.Context, send chan<- mocrelay.ServerMsg, recv <-chan mocrelay.ClientMsg) error {
	put := func(m mocrelay.ServerMsg) bool {
		h.mu.Lock()
		h.emitted = append(h.emitted, m)
		h.mu.Unlock()
		select {
		case send <- m:
			return true
		case <-ctx.Done():
			return false
		}
	}
	for {
		select {
		case <-ctx.Done():
			return ctx.Err()
		case m, ok := <-recv:
			if !ok {
				return mocrelay.ErrRecvClosed
			}
			h.mu.Lock()
			h.received = append(h.received, m)
			h.mu.Unlock()
			var outs []mocrelay.ServerMsg
			switch m := m.(type) {
			case *mocrelay.ClientReqMsg:
				if strings.HasPrefix(m.SubscriptionID, "rej:") {
					outs = []mocrelay.ServerMsg{h.closed(m.SubscriptionID, "refused")}
				} else if strings.HasPrefix(m.SubscriptionID, "race:") {
					// EOSE, then -- a moment later, while the client's CLOSE of the same id is on its way -- CLOSED
					if !put(mocrelay.NewServerEOSEMsg(m.SubscriptionID)) {
						return ctx.Err()
					}
					h.races++
					// wait until the client is about to send its CLOSE, then a swept fraction of a microsecond more
					for t0 := time.Now(); h.gate.Load() == 0 && time.Since(t0) < 50*time.Millisecond; {
					}
					h.gate.Store(0)
					for t0 := time.Now(); time.Since(t0) < time.Duration(h.races%60)*40*time.Nanosecond; {
					}
					outs = []mocrelay.ServerMsg{h.closed(m.SubscriptionID, "server closes"), mocrelay.NewServerNoticeMsg("raced")}
				} else {
					outs = []mocrelay.ServerMsg{mocrelay.NewServerEOSEMsg(m.SubscriptionID)}
				}
			case *mocrelay.ClientCloseMsg:
				if m.SubscriptionID == "die" {
					return errors.New("backend gone") // the handler ends the session by itself
				}
				if strings.HasPrefix(m.SubscriptionID, "srv:") {
					outs = append(outs, h.closed(strings.TrimPrefix(m.SubscriptionID, "srv:"), "server closes"))
				}
				outs = append(outs, mocrelay.NewServerNoticeMsg("closed "+m.SubscriptionID))
			case *mocrelay.ClientEventMsg:
				outs = []mocrelay.ServerMsg{mocrelay.NewServerEventMsg("live", m.Event), mocrelay.NewServerOKMsg(m.Event.ID, h.nClosed%3 != 1, c19Prefixes[h.nClosed%len(c19Prefixes)], "")}
			case *mocrelay.ClientCountMsg:
				outs = []mocrelay.ServerMsg{mocrelay.NewServerCountMsg(m.SubscriptionID, 1, nil)}
			case *mocrelay.ClientAuthMsg:
				outs = []mocrelay.ServerMsg{&mocrelay.ServerAuthMsg{Challenge: "c"}}
			}
			for _, o := range outs {
				if !put(o) {
					return ctx.Err()
				}
			}
		}
	}
}

func lastOfStep(m mocrelay.ClientMsg) func(mocrelay.ServerMsg) bool {
	switch m := m.(type) {
	case *mocrelay.ClientReqMsg:
		return func(o mocrelay.ServerMsg) bool {
			switch o := o.(type) {
			case *mocrelay.ServerEOSEMsg:
				return o.SubscriptionID == m.SubscriptionID
			case *mocrelay.ServerClosedMsg:
				return o.SubscriptionID == m.SubscriptionID
			}
			return false
		}
	case *mocrelay.ClientCloseMsg:
		return func(o mocrelay.ServerMsg) bool {
			n, ok := o.(*mocrelay.ServerNoticeMsg)
			return ok && n.Message == "closed "+m.SubscriptionID
		}
	case *mocrelay.ClientEventMsg:
		return func(o mocrelay.ServerMsg) bool { _, ok := o.(*mocrelay.ServerOKMsg); return ok }
	case *mocrelay.ClientCountMsg:
		return func(o mocrelay.ServerMsg) bool { _, ok := o.(*mocrelay.ServerCountMsg); return ok }
	default:
		return func(o mocrelay.ServerMsg) bool { _, ok := o.(*mocrelay.ServerAuthMsg); return ok }
	}
}

func gatherLine(reg *prometheus.Registry) (map[string]any, error) {
	mfs, err := reg.Gather()
	if err != nil {
		return nil, err
	}
	recv := map[string]int64{"EVENT": 0, "REQ": 0, "CLOSE": 0, "AUTH": 0, "COUNT": 0}
	send := map[string]int64{"EOSE": 0, "EVENT": 0, "NOTICE": 0, "OK": 0, "AUTH": 0, "COUNT": 0, "CLOSED": 0}
	ev := map[string]int64{"k0": 0, "k1": 0, "k5": 0, "k30000": 0, "k1024": 0, "k1025": 0, "k31024": 0}
	line := map[string]any{"op": "observe", "conn": int64(0), "req": int64(0), "shape": "observe"}
	for _, mf := range mfs {
		for _, m := range mf.GetMetric() {
			label := ""
			if len(m.GetLabel()) > 0 {
				label = m.GetLabel()[0].GetValue()
			}
			switch mf.GetName() {
			case "mocrelay_connection_count":
				line["conn"] = int64(m.GetGauge().GetValue())
			case "mocrelay_req_count":
				line["req"] = int64(m.GetGauge().GetValue())
			case "mocrelay_recv_msg_total":
				recv[label] = int64(m.GetCounter().GetValue())
			case "mocrelay_send_msg_total":
				send[label] = int64(m.GetCounter().GetValue())
			case "mocrelay_recv_event_total":
				ev["k"+label] = int64(m.GetCounter().GetValue())
			}
		}
	}
	line["recv"], line["send"], line["ev"] = recv, send, ev
	return line, nil
}

func srvType(m mocrelay.ServerMsg) (typ, sub string) {
	switch m := m.(type) {
	case *mocrelay.ServerEOSEMsg:
		return "EOSE", m.SubscriptionID
	case *mocrelay.ServerEventMsg:
		return "EVENT", m.SubscriptionID
	case *mocrelay.ServerNoticeMsg:
		return "NOTICE", ""
	case *mocrelay.ServerOKMsg:
		return "OK", ""
	case *mocrelay.ServerAuthMsg:
		return "AUTH", ""
	case *mocrelay.ServerCountMsg:
		return "COUNT", m.SubscriptionID
	case *mocrelay.ServerClosedMsg:
		return "CLOSED", m.SubscriptionID
	}
	return "?", ""
}

// C19: metrics middleware.
func C19(run *core.Run) {
	if res, err := tlcrun.Run(tlcrun.Options{Module: "MetricsMC", Config: "MetricsMC.cfg", Workers: 16, Timeout: 10 * time.Minute}); err != nil || !res.OK {
		tail := ""
		if res != nil {
			tail = res.Tail
		}
		run.Problem("TLC failed on MetricsMC: %v\n%s", err, tail)
	} else {
		run.Add("states", res.Distinct)
		run.Add("transitions", res.Generated)
	}
	conc := abs.NewConc()
	r := run.Rand("c19")
	nt := 25
	if run.Thorough() {
		nt = 1500
	}
	distinct := core.NewDistinct()
	var traces []tv.Trace
	kinds := []int64{0, 1, 5, 30000, 1024, 1025, 31024}
	for t := 0; t < nt; t++ {
		reg := prometheus.NewRegistry()
		mw := mocrelay.Middleware(mocprom.NewPrometheusMiddleware(reg))
		type sess struct {
			name string
			ss   *stepSession
			down *scriptHandler
			sent []mocrelay.ClientMsg
			got  []mocrelay.ServerMsg
			live bool
		}
		tr := tv.Trace{Name: fmt.Sprintf("metrics-%d", t)}
		tr.Lines = append(tr.Lines, map[string]any{"op": "reset"})
		var mu sync.Mutex // serialises trace lines in the concurrent phase
		nSess := 1 + r.Intn(4)
		var sessions []*sess
		start := func(i int) *sess {
			d := &scriptHandler{}
			s := &sess{name: fmt.Sprintf("s%d", i), down: d, live: true}
			s.ss = newStepSession(mw(d))
			return s
		}
		randomMsg := func(rr func(int) int, k int) mocrelay.ClientMsg {
			long := strings.Repeat("L", 64)                                 // two ids that agree in their first 64 bytes are two subscriptions
			subs := []string{"a", "b", "rej:c", "", long + "a", long + "b"} // the empty subscription id passes the admission gate
			switch rr(8) {
			case 0, 1, 2:
				return &mocrelay.ClientReqMsg{SubscriptionID: subs[rr(len(subs))], ReqFilters: []*mocrelay.ReqFilter{{}}}
			case 3:
				return &mocrelay.ClientCloseMsg{SubscriptionID: []string{"a", "b", "never", "", strings.Repeat("L", 64) + "a"}[rr(5)]}
			case 4:
				return &mocrelay.ClientCloseMsg{SubscriptionID: "srv:" + []string{"a", "b", ""}[rr(3)]}
			case 5:
				return &mocrelay.ClientEventMsg{Event: conc.Event(abs.Event{ID: fmt.Sprintf("me%d_%d", t, k), Author: "a", Kind: kinds[rr(len(kinds))], TS: 1}, "m")}
			case 6:
				return &mocrelay.ClientCountMsg{SubscriptionID: "cnt", ReqFilters: []*mocrelay.ReqFilter{{}}}
			default:
				return &mocrelay.ClientAuthMsg{Event: conc.Event(abs.Event{ID: fmt.Sprintf("ma%d_%d", t, k), Author: "a", Kind: 22242, TS: 1}, "")}
			}
		}
		step := func(s *sess, m mocrelay.ClientMsg) bool {
			outs, err := s.ss.do(m, lastOfStep(m))
			if err != nil {
				run.Violate("metrics:session stuck", err.Error(), nil)
				return false
			}
			s.sent = append(s.sent, m)
			s.got = append(s.got, outs...)
			mu.Lock()
			defer mu.Unlock()
			kind, sub, typ := "k0", "", m.ClientMsgLabel()
			switch m := m.(type) {
			case *mocrelay.ClientReqMsg:
				sub = m.SubscriptionID
			case *mocrelay.ClientCloseMsg:
				sub = m.SubscriptionID
			case *mocrelay.ClientCountMsg:
				sub = m.SubscriptionID
			case *mocrelay.ClientEventMsg:
				kind = fmt.Sprintf("k%d", m.Event.Kind)
			}
			tr.Lines = append(tr.Lines, map[string]any{"op": "cmsg", "s": s.name, "type": typ, "kind": kind, "sub": sub, "shape": "cmsg " + typ})
			for _, o := range outs {
				st, ssub := srvType(o)
				tr.Lines = append(tr.Lines, map[string]any{"op": "smsg", "s": s.name, "type": st, "sub": ssub, "shape": "smsg " + st})
			}
			run.Add("steps", 1)
			return true
		}
		observe := func(what string) {
			line, err := gatherLine(reg)
			if err != nil {
				run.Problem("gather: %v", err)
				return
			}
			line["shape"] = "observe " + what
			tr.Lines = append(tr.Lines, line)
			run.Add("observations", 1)
		}
		end := func(s *sess) {
			s.ss.close()
			s.live = false
			tr.Lines = append(tr.Lines, map[string]any{"op": "end", "s": s.name, "shape": "end"})
			// transparency: downstream saw exactly what the client sent, the client exactly what downstream emitted
			s.down.mu.Lock()
			defer s.down.mu.Unlock()
			if !reflect.DeepEqual(s.down.received, s.sent) {
				run.Violate("metrics:client messages altered / lost / reordered", fmt.Sprintf("sent %s, downstream received %s", describeMsgs(s.sent), describeMsgs(s.down.received)), nil)
			}
			if !reflect.DeepEqual(s.down.emitted, s.got) {
				run.Violate("metrics:server messages altered / lost / reordered", fmt.Sprintf("emitted %s, client received %s", describeSrv(s.down.emitted), describeSrv(s.got)), nil)
			}
		}
		for i := 0; i < nSess; i++ {
			s := start(i)
			sessions = append(sessions, s)
			tr.Lines = append(tr.Lines, map[string]any{"op": "start", "s": s.name, "shape": "start"})
			// the session has certainly started once its first step is over
			step(s, &mocrelay.ClientCloseMsg{SubscriptionID: "hello"})
		}
		// phase 1: one driver interleaves steps of all sessions; observations in between
		ok := true
		for k := 0; k < 10+r.Intn(20) && ok; k++ {
			var live []*sess
			for _, s := range sessions {
				if s.live {
					live = append(live, s)
				}
			}
			if len(live) == 0 {
				break
			}
			s := live[r.Intn(len(live))]
			switch {
			case r.Intn(12) == 0:
				end(s) // a session ends with subscriptions still open
				observe("after end")
			case r.Intn(30) == 0:
				// the wrapped handler returns by itself (a backend error) while the client is still there:
				// that is the end of the session too
				die := &mocrelay.ClientCloseMsg{SubscriptionID: "die"}
				select {
				case s.ss.recv <- die:
				case <-time.After(3 * time.Second):
					run.Violate("metrics:session stuck", "session does not take input", nil)
					ok = false
				}
				if ok {
					s.sent = append(s.sent, die)
					tr.Lines = append(tr.Lines, map[string]any{"op": "cmsg", "s": s.name, "type": "CLOSE", "kind": "k0", "sub": "die", "shape": "cmsg CLOSE"})
					select {
					case <-s.ss.done:
					case <-time.After(3 * time.Second):
						run.Violate("metrics:session does not end after its handler returned", "ServeNostr of the middleware still running 3 s after the wrapped handler returned an error", nil)
						ok = false
					}
					s.ss.cancel()
					s.live = false
					tr.Lines = append(tr.Lines, map[string]any{"op": "end", "s": s.name, "shape": "end"})
					observe("after the handler ended the session")
				}
			case r.Intn(5) == 0:
				observe("mid")
			default:
				ok = step(s, randomMsg(r.Intn, k))
			}
		}
		// phase 1b (every 5th trace): a client CLOSE and a server CLOSED of the same subscription cross
		if (t%5 == 4 || t == 0) && ok {
			for _, s := range sessions {
				if !s.live {
					continue
				}
				for k := 0; k < 600 && ok; k++ {
					id := fmt.Sprintf("race:%d", k%3)
					ok = step(s, &mocrelay.ClientReqMsg{SubscriptionID: id, ReqFilters: []*mocrelay.ReqFilter{{}}})
					s.down.gate.Store(1)
					ok = ok && step(s, &mocrelay.ClientCloseMsg{SubscriptionID: id})
				}
				observe("after crossing CLOSE / CLOSED")
				break
			}
		}
		// phase 2: the remaining sessions run truly concurrently, one observation when all are quiescent
		var wg sync.WaitGroup
		for i, s := range sessions {
			if !s.live {
				continue
			}
			wg.Add(1)
			rr := run.Rand(fmt.Sprint("c19-par", t, i))
			go func(s *sess) {
				defer wg.Done()
				for k := 0; k < 8; k++ {
					if !step(s, randomMsg(rr.Intn, 1000+k)) {
						return
					}
				}
			}(s)
		}
		wg.Wait()
		observe("after concurrent phase")
		for _, s := range sessions {
			if s.live {
				end(s)
			}
		}
		observe("all sessions ended")
		// a session whose context is already cancelled when it starts (the peer went away during the handshake):
		// it starts and ends like any other
		{
			d := &scriptHandler{}
			cctx, ccancel := context.WithCancel(context.Background())
			ccancel()
			cdone := make(chan error, 1)
			go func() {
				cdone <- mw(d).ServeNostr(cctx, make(chan mocrelay.ServerMsg), make(chan mocrelay.ClientMsg))
			}()
			select {
			case <-cdone:
				tr.Lines = append(tr.Lines, map[string]any{"op": "start", "s": "gone", "shape": "start"}, map[string]any{"op": "end", "s": "gone", "shape": "end"})
				observe("after a session that started with a cancelled context")
			case <-time.After(5 * time.Second):
				run.Violate("metrics:session does not end", "ServeNostr of the middleware still running 5 s after it was started with a cancelled context", nil)
			}
		}
		distinct.Add(tr.Name)
		traces = append(traces, tr)
	}
	// the middleware behind the real Relay, served over a unix socket: every peer has the same remote address
	if tr, ok := metricsOverUnixSocket(run); ok {
		traces = append(traces, tr)
		distinct.Add(tr.Name)
	}
	out, err := tv.ValidateChunks(metricsTraceSpec, nil, traces, 6, 100, 8)
	if out != nil {
		run.Add("traces_validated_against_impl", int64(out.Accepted+len(out.Rejects)))
		run.Add("trace_lines", int64(out.Lines))
	}
	if err != nil {
		run.Problem("MetricsTrace validation failed to run: %v", err)
	} else {
		for _, rj := range out.Rejects {
			b, _ := json.Marshal(rj.Line)
			run.Violate("trace:"+lineShape(rj.Line), fmt.Sprintf("%s line %d: exported values differ from the specification: %s", rj.Trace.Name, rj.LineIdx, b),
				map[string]any{"trace": rj.Trace.Lines[:rj.LineIdx+1]})
		}
		// canary: an observation with a wrong gauge
		c := tv.Trace{Name: "canary"}
		done := false
		for _, l := range traces[0].Lines {
			m := l.(map[string]any)
			if !done && m["op"] == "observe" {
				cp := map[string]any{}
				for k, v := range m {
					cp[k] = v
				}
				cp["req"] = m["req"].(int64) + 1
				c.Lines = append(c.Lines, cp)
				done = true
				continue
			}
			c.Lines = append(c.Lines, l)
		}
		if rej, err := tv.Rejects(metricsTraceSpec, nil, c); err != nil {
			run.Problem("canary failed to run: %v", err)
		} else if !rej {
			run.Problem("canary (wrong gauge) accepted by MetricsTrace")
		} else {
			run.Add("canaries_rejected", 1)
		}
		run.Sample(map[string]any{"trace": traces[0].Name, "lines": traces[0].Lines[:min(8, len(traces[0].Lines))]})
	}
	run.Set("rule", "Metrics.tla is the gauge / counter state machine (model-checked for two sessions: gauges never negative, zero when no session is live); seeded runs put 1-4 sessions through the real NewPrometheusMiddleware(prometheus.NewRegistry()) around a scripted handler: repeated REQ of one id, CLOSE of open / never opened ids, server-side CLOSED and OK with every machine-readable prefix in turn, refused REQ, a session started with an already cancelled context, EVENT of four kinds, COUNT, AUTH, sessions ending with subscriptions open; a driver interleaves steps of all sessions (each step ends observably), then the sessions run concurrently; Registry.Gather() is logged at quiescent points and TLC validates every observation against the specification state (MetricsTrace); transparency (downstream received = client sent, client received = downstream emitted, in order) is compared per session. distinct_nontrivial = distinct runs")
	run.Set("evaluations", run.Get("steps")+run.Get("observations"))
	run.Set("distinct_nontrivial", distinct.Len())
	run.Assume = append(run.Assume, "observations are taken only when every session is between steps (quiescent)")
}

// metricsOverUnixSocket: NewRelay(prometheus(scriptHandler)) served on a unix socket, two WebSocket
// sessions alive at the same time; REQs, then the sessions end one after the other.
func metricsOverUnixSocket(run *core.Run) (tv.Trace, bool) {
	tr := tv.Trace{Name: "metrics-unix-socket"}
	dir, err := os.MkdirTemp("", "verif-c19-")
	if err != nil {
		run.Problem("tmp dir: %v", err)
		return tr, false
	}
	defer os.RemoveAll(dir)
	path := filepath.Join(dir, "relay.sock")
	l, err := net.Listen("unix", path)
	if err != nil {
		run.Problem("unix listener: %v", err)
		return tr, false
	}
	reg := prometheus.NewRegistry()
	opt := mocrelay.NewDefaultRelayOption()
	opt.RecvRateLimitRate = 1e9
	opt.RecvRateLimitBurst = 1 << 30
	relay := mocrelay.NewRelay(mocrelay.Middleware(mocprom.NewPrometheusMiddleware(reg))(&scriptHandler{}), opt)
	srv := &http.Server{Handler: relay}
	go srv.Serve(l)
	defer srv.Close()
	client := &http.Client{Transport: &http.Transport{DialContext: func(ctx context.Context, _, _ string) (net.Conn, error) {
		return (&net.Dialer{}).DialContext(ctx, "unix", path)
	}}}
	ctx, cancel := context.WithTimeout(context.Background(), 20*time.Second)
	defer cancel()
	tr.Lines = append(tr.Lines, map[string]any{"op": "reset"})
	observe := func(what string, want func(conn int64) bool) {
		var line map[string]any
		for dl := time.Now().Add(3 * time.Second); ; time.Sleep(2 * time.Millisecond) {
			line, err = gatherLine(reg)
			if err != nil {
				run.Problem("gather: %v", err)
				return
			}
			if want(line["conn"].(int64)) || time.Now().After(dl) {
				break
			}
		}
		line["shape"] = "observe " + what
		tr.Lines = append(tr.Lines, line)
		run.Add("observations", 1)
	}
	var conns []*websocket.Conn
	for i, subs := range [][]string{{"a"}, {"b", "c"}} {
		// both peers also send the same request-scoped headers: nothing in a request identifies a session
		hdr := http.Header{"X-Request-Id": {"req-1"}, "X-Forwarded-For": {"203.0.113.7"}, "X-Real-Ip": {"203.0.113.7"}, "User-Agent": {"verif"}}
		c, _, err := websocket.Dial(ctx, "ws://relay/", &websocket.DialOptions{HTTPClient: client, HTTPHeader: hdr})
		if err != nil {
			run.Problem("dial over the unix socket: %v", err)
			return tr, false
		}
		defer c.CloseNow()
		conns = append(conns, c)
		name := fmt.Sprintf("u%d", i)
		tr.Lines = append(tr.Lines, map[string]any{"op": "start", "s": name, "shape": "start"})
		for _, sub := range subs {
			if err := c.Write(ctx, websocket.MessageText, []byte(fmt.Sprintf(`["REQ",%q,{}]`, sub))); err != nil {
				run.Problem("write over the unix socket: %v", err)
				return tr, false
			}
			if _, _, err := c.Read(ctx); err != nil { // the EOSE
				run.Problem("read over the unix socket: %v", err)
				return tr, false
			}
			tr.Lines = append(tr.Lines, map[string]any{"op": "cmsg", "s": name, "type": "REQ", "kind": "k0", "sub": sub, "shape": "cmsg REQ"},
				map[string]any{"op": "smsg", "s": name, "type": "EOSE", "sub": sub, "shape": "smsg EOSE"})
			run.Add("steps", 1)
		}
	}
	observe("two sessions over a unix socket", func(c int64) bool { return c == 2 })
	conns[0].Close(websocket.StatusNormalClosure, "")
	tr.Lines = append(tr.Lines, map[string]any{"op": "end", "s": "u0", "shape": "end"})
	observe("after end (unix socket)", func(c int64) bool { return c == 1 })
	conns[1].Close(websocket.StatusNormalClosure, "")
	tr.Lines = append(tr.Lines, map[string]any{"op": "end", "s": "u1", "shape": "end"})
	observe("all sessions ended (unix socket)", func(c int64) bool { return c == 0 })
	return tr, true
}
