package checks

import (
	"context"
	"encoding/json"
	"fmt"
	"math"
	"math/rand"
	"sync"
	"time"

	"github.com/high-moctane/mocrelay"
	mocsqlite "github.com/high-moctane/mocrelay/handler/sqlite"

	"verif/harness/internal/abs"
	"verif/harness/internal/core"
	"verif/harness/internal/tlcrun"
	"verif/harness/internal/tv"
)

var mergeTraceSpec = tv.Spec{Module: "MergeTrace", Config: "MergeTrace.cfg"}

// recorder gives every observation a place in one total order (the order in
// which the lock is taken): an observation logged before an action precedes
// everything that the action causes, one logged after a receive follows
// everything that caused it.
type recorder struct {
	mu    sync.Mutex
	lines []any
}

func (r *recorder) log(t string, ch int, m map[string]any) {
	r.mu.Lock()
	r.lines = append(r.lines, map[string]any{"op": "ev", "t": t, "ch": ch, "m": m, "shape": t + " " + m["k"].(string)})
	r.mu.Unlock()
}

var dummyEv = abs.Event{ID: "-", Author: "-", Kind: 0, TS: 0}

func amsg(k string) map[string]any {
	return map[string]any{"k": k, "sub": "", "id": "", "ts": 0, "acc": false, "txt": "", "n": 0, "fs": []abs.Filter{}, "ev": dummyEv}
}

type fsTable struct {
	mu sync.Mutex
	m  map[string][]abs.Filter
}

func (t *fsTable) get(s string) []abs.Filter { t.mu.Lock(); defer t.mu.Unlock(); return t.m[s] }
func (t *fsTable) set(s string, fs []abs.Filter) {
	t.mu.Lock()
	t.m[s] = fs
	t.mu.Unlock()
}

func absClient(conc *abs.Conc, m mocrelay.ClientMsg, fsOf *fsTable) map[string]any {
	switch m := m.(type) {
	case *mocrelay.ClientReqMsg:
		a := amsg("REQ")
		a["sub"] = m.SubscriptionID
		a["fs"] = abs.NormFilters(fsOf.get(m.SubscriptionID))
		return a
	case *mocrelay.ClientCloseMsg:
		a := amsg("CLOSE")
		a["sub"] = m.SubscriptionID
		return a
	case *mocrelay.ClientEventMsg:
		a := amsg("EVENT")
		a["id"] = conc.Label(m.Event.ID)
		return a
	case *mocrelay.ClientCountMsg:
		a := amsg("COUNT")
		a["sub"] = m.SubscriptionID
		return a
	}
	return amsg("OTHER")
}

func absServer(conc *abs.Conc, m mocrelay.ServerMsg, evOf func(string) (abs.Event, bool)) map[string]any {
	switch m := m.(type) {
	case *mocrelay.ServerEOSEMsg:
		a := amsg("EOSE")
		a["sub"] = m.SubscriptionID
		return a
	case *mocrelay.ServerEventMsg:
		a := amsg("SEVENT")
		a["sub"] = m.SubscriptionID
		l := conc.Label(m.Event.ID)
		a["id"] = l
		a["ts"] = abs.AbsTS(m.Event.CreatedAt)
		if e, ok := evOf(l); ok && abs.TS(e.TS) == m.Event.CreatedAt && e.Kind == m.Event.Kind && conc.Pubkey(e.Author) == m.Event.Pubkey {
			a["ev"] = e
		} else {
			a["ev"] = abs.Event{ID: "?changed", Author: "-", Kind: m.Event.Kind, TS: m.Event.CreatedAt}
		}
		return a
	case *mocrelay.ServerOKMsg:
		a := amsg("OK")
		a["id"] = conc.Label(m.EventID)
		a["acc"] = m.Accepted
		a["txt"] = m.Message()
		return a
	case *mocrelay.ServerCountMsg:
		a := amsg("SCOUNT")
		a["sub"] = m.SubscriptionID
		a["n"] = absCount(m.Count)
		return a
	case *mocrelay.ServerNoticeMsg:
		a := amsg("NOTICE")
		a["txt"] = m.Message
		return a
	case *mocrelay.ServerClosedMsg:
		a := amsg("CLOSED")
		a["sub"] = m.SubscriptionID
		a["txt"] = m.Message()
		return a
	}
	return amsg("OTHER")
}

// scriptedChild is a Handler under harness control.
type scriptedChild struct {
	idx   int
	rec   *recorder
	conc  *abs.Conc
	r     *rand.Rand
	pool  []abs.Event // events it may serve as "stored"
	evOf  map[string]abs.Event
	fsOf  *fsTable
	emitM sync.Mutex    // log+send of one emission is atomic per child
	style int           // 0 well-behaved (sorted, matching), 1 unsorted/duplicates/non-matching, 2 eose first then events
	live  bool          // emits live events after its EOSE
	slow  time.Duration // pause before each emission of a REQ script (a child that is still answering while others are done)
	jit   func()

	mu     sync.Mutex
	open   map[string]bool
	liveN  int
	stopLv chan struct{}
	lvDone chan struct{} // closed when the live emitter has stopped
}

func (c *scriptedChild) emit(ctx context.Context, send chan<- mocrelay.ServerMsg, m mocrelay.ServerMsg) bool {
	c.emitM.Lock()
	defer c.emitM.Unlock()
	c.rec.log("emits", c.idx, absServer(c.conc, m, c.lookup))
	select {
	case send <- m:
		return true
	case <-ctx.Done():
		return false
	}
}

func (c *scriptedChild) lookup(l string) (abs.Event, bool) {
	c.mu.Lock()
	defer c.mu.Unlock()
	e, ok := c.evOf[l]
	return e, ok
}

func (c *scriptedChild) ServeNostr(ctx context.Context, send chan<- mocrelay.ServerMsg, recv <-chan mocrelay.ClientMsg) error {
	var wg sync.WaitGroup
	defer wg.Wait()
	ctx, cancel := context.WithCancel(ctx)
	defer cancel()
	if c.live {
		wg.Add(1)
		go func() {
			defer wg.Done()
			defer close(c.lvDone)
			for {
				select {
				case <-ctx.Done():
					return
				case <-c.stopLv:
					return
				case <-time.After(time.Duration(50+c.r.Intn(300)) * time.Microsecond):
				}
				c.mu.Lock()
				var subs []string
				for s, o := range c.open {
					if o {
						subs = append(subs, s)
					}
				}
				var sub string
				var e abs.Event
				if len(subs) > 0 && c.liveN < 3 {
					sub = subs[c.r.Intn(len(subs))]
					c.liveN++
					e = abs.Event{ID: fmt.Sprintf("live%d_%d", c.idx, c.liveN), Author: "a", Kind: 1, TS: int64(10 + c.liveN)}
					c.evOf[e.ID] = e
				}
				c.mu.Unlock()
				if sub != "" {
					if !c.emit(ctx, send, mocrelay.NewServerEventMsg(sub, c.conc.Event(e, "live"))) {
						return
					}
				}
			}
		}()
	}
	for {
		select {
		case <-ctx.Done():
			return ctx.Err()
		case m, ok := <-recv:
			if !ok {
				return mocrelay.ErrRecvClosed
			}
			c.rec.log("chrecv", c.idx, absClient(c.conc, m, c.fsOf))
			c.jit()
			switch m := m.(type) {
			case *mocrelay.ClientReqMsg:
				var evs []abs.Event
				for _, e := range c.pool {
					if c.r.Intn(3) != 0 {
						evs = append(evs, e)
					}
				}
				if c.style != 1 {
					// newest first
					for i := 1; i < len(evs); i++ {
						for j := i; j > 0 && evs[j].TS > evs[j-1].TS; j-- {
							evs[j], evs[j-1] = evs[j-1], evs[j]
						}
					}
				} else if len(evs) > 0 {
					c.r.Shuffle(len(evs), func(i, j int) { evs[i], evs[j] = evs[j], evs[i] })
					evs = append(evs, evs[0]) // a duplicate
				}
				if c.style == 2 {
					if !c.emit(ctx, send, mocrelay.NewServerEOSEMsg(m.SubscriptionID)) {
						return ctx.Err()
					}
				}
				for _, e := range evs {
					if c.slow > 0 {
						time.Sleep(c.slow)
					}
					if !c.emit(ctx, send, mocrelay.NewServerEventMsg(m.SubscriptionID, c.conc.Event(e, "stored"))) {
						return ctx.Err()
					}
					c.jit()
				}
				if c.slow > 0 {
					time.Sleep(c.slow)
				}
				if c.style != 2 {
					if !c.emit(ctx, send, mocrelay.NewServerEOSEMsg(m.SubscriptionID)) {
						return ctx.Err()
					}
				}
				c.mu.Lock()
				c.open[m.SubscriptionID] = true
				c.mu.Unlock()
			case *mocrelay.ClientCloseMsg:
				c.mu.Lock()
				c.open[m.SubscriptionID] = false
				c.mu.Unlock()
			case *mocrelay.ClientEventMsg:
				acc := c.r.Intn(3) != 0
				prefix, txt := "", fmt.Sprintf("child%d says no", c.idx)
				switch c.r.Intn(4) {
				case 0:
					prefix = mocrelay.MachineReadablePrefixDuplicate
				case 1:
					prefix = mocrelay.MachineReadablePrefixBlocked
				case 2:
					txt = ""
				}
				if acc && c.r.Intn(2) == 0 {
					prefix, txt = "", ""
				}
				if !c.emit(ctx, send, mocrelay.NewServerOKMsg(m.Event.ID, acc, prefix, txt)) {
					return ctx.Err()
				}
			case *mocrelay.ClientCountMsg:
				n := uint64(c.r.Intn(4))
				if c.r.Intn(5) == 0 { // counts far apart: the maximum must not be computed by subtraction
					n = []uint64{1 << 62, 1<<63 + 10, math.MaxUint64}[c.r.Intn(3)]
				}
				// the approximate flag (absent / true / false) is independent of the count: the merged reply carries the largest count whatever the flags say
				var approx *bool
				if k := c.r.Intn(3); k > 0 {
					b := k == 1
					approx = &b
				}
				if !c.emit(ctx, send, mocrelay.NewServerCountMsg(m.SubscriptionID, n, approx)) {
					return ctx.Err()
				}
				if m.SubscriptionID != sentinelSub && c.r.Intn(6) == 0 {
					if !c.emit(ctx, send, mocrelay.NewServerNoticeMsg(fmt.Sprintf("notice from child %d", c.idx))) {
						return ctx.Err()
					}
				}
			}
		}
	}
}

// runMergeScenario runs one seeded client/children scenario and returns the trace.
func runMergeScenario(run *core.Run, seed int64, nChildren int, what string) (tv.Trace, bool) {
	r := rand.New(rand.NewSource(seed))
	conc := abs.NewConc()
	rec := &recorder{}
	evOf := map[string]abs.Event{}
	fsOf := &fsTable{m: map[string][]abs.Filter{}}
	var evMu sync.Mutex
	_ = evMu
	// shared pool of stored events: several children hold the same ones (dedup matters)
	var pool []abs.Event
	for i := 0; i < 4; i++ {
		e := abs.Event{ID: fmt.Sprintf("m%d", i+1), Author: []string{"a", "b"}[r.Intn(2)], Kind: int64(1 + r.Intn(2)), TS: int64(1 + r.Intn(4))}
		if i == 3 && r.Intn(3) == 0 {
			e.TS = -1000000 // the oldest possible created_at
		}
		// tags: one event carries two matching values of one tag name (and nothing of the other name), one carries both names
		switch i {
		case 0:
			e.Tags = []abs.Tag{{Name: "t", Val: "x", N: 2}, {Name: "t", Val: []string{"x", "y"}[r.Intn(2)], N: 2}}
		case 1:
			e.Tags = []abs.Tag{{Name: "t", Val: "x", N: 2}, {Name: "g", Val: "q", N: 2}}
		}
		pool = append(pool, e)
		evOf[e.ID] = e
	}
	jitter := func(rr *rand.Rand) func() {
		var mu sync.Mutex
		return func() {
			mu.Lock()
			n := rr.Intn(4)
			mu.Unlock()
			switch n {
			case 0:
				time.Sleep(time.Duration(20) * time.Microsecond)
			case 1:
				for i := 0; i < 3; i++ {
					time.Sleep(0)
				}
			}
		}
	}
	var children []*scriptedChild
	var handlers []mocrelay.Handler
	for i := 1; i <= nChildren; i++ {
		rr := rand.New(rand.NewSource(seed*31 + int64(i)))
		var p []abs.Event
		for _, e := range pool {
			if rr.Intn(4) != 0 {
				p = append(p, e)
			}
		}
		c := &scriptedChild{idx: i, rec: rec, conc: conc, r: rr, pool: p, evOf: map[string]abs.Event{}, fsOf: fsOf,
			style: rr.Intn(3), live: what == "req" && rr.Intn(2) == 0, jit: jitter(rr), open: map[string]bool{}, stopLv: make(chan struct{}), lvDone: make(chan struct{})}
		for k, v := range evOf {
			c.evOf[k] = v
		}
		children = append(children, c)
		handlers = append(handlers, c)
	}
	// every 4th REQ scenario: the last child answers slowly and the client closes a subscription
	// shortly after opening it, so that the CLOSE meets a child that is still answering
	if nChildren > 60 {
		for _, c := range children {
			c.pool, c.style, c.live = nil, 0, false
		}
		last := children[len(children)-1]
		last.slow = 3 * time.Millisecond // the merged EOSE has to wait for the last child too
		last.pool = pool[:1]
	}
	closeRace := what == "req" && seed%4 == 3 && nChildren >= 2 && nChildren < 60
	if closeRace {
		last := children[len(children)-1]
		last.slow = time.Duration(60+r.Intn(200)) * time.Microsecond
		if last.style == 2 {
			last.style = 0
		}
	}
	h := mocrelay.NewMergeHandler(handlers...)
	ctx, cancel := context.WithCancel(context.Background())
	defer cancel()
	send := make(chan mocrelay.ServerMsg)
	recv := make(chan mocrelay.ClientMsg)
	done := make(chan error, 1)
	go func() { done <- h.ServeNostr(ctx, send, recv) }()

	// client reader
	eoseGot := map[string]chan struct{}{}
	var egMu sync.Mutex
	sentinel := make(chan struct{})
	go func() {
		for {
			select {
			case <-ctx.Done():
				return
			case m := <-send:
				// events emitted live by children are registered by the children; merge maps
				a := absServerMulti(conc, m, children, evOf)
				rec.log("cgot", 0, a)
				switch m := m.(type) {
				case *mocrelay.ServerEOSEMsg:
					egMu.Lock()
					if ch, ok := eoseGot[m.SubscriptionID]; ok {
						select {
						case <-ch:
						default:
							close(ch)
						}
					}
					egMu.Unlock()
				case *mocrelay.ServerCountMsg:
					if m.SubscriptionID == sentinelSub {
						close(sentinel)
						return
					}
				}
			}
		}
	}()
	offer := func(m mocrelay.ClientMsg) bool {
		rec.log("csnd", 0, absClient(conc, m, fsOf))
		select {
		case recv <- m:
			return true
		case <-time.After(5 * time.Second):
			return false
		}
	}
	tr := tv.Trace{Name: fmt.Sprintf("merge-%s-n%d-seed%d", what, nChildren, seed)}
	tr.Lines = append(tr.Lines, map[string]any{"op": "reset", "n": nChildren})
	cj := jitter(r)
	filterChoices := [][]abs.Filter{
		{{}},
		{{Kinds: abs.IntSet{P: true, S: []int64{1}}}},
		{{Limit: abs.OptInt{P: true, V: 1}}},
		{{Limit: abs.OptInt{P: true, V: 2}, Authors: abs.StrSet{P: true, S: []string{"a", "b"}}}},
		{{Kinds: abs.IntSet{P: true, S: []int64{2}}}, {Since: abs.OptInt{P: true, V: 3}}},
		{{Limit: abs.OptInt{P: true, V: 0}}},
		// two tag conditions: both must hold, however many tags of one name the event carries
		{{Tags: map[string][]string{"t": {"x", "y"}, "g": {"q"}}}},
		{{Tags: map[string][]string{"t": {"x"}}}, {Tags: map[string][]string{"g": {"q", "r"}, "t": {"y"}}}},
	}
	nsub := 0
	closed := map[string]bool{}
	var subs []string
	stuck := false
	steps := 3 + r.Intn(5)
	if nChildren > 8 {
		steps = 2 // every client message costs 2 x nChildren observations
	}
	if nChildren > 60 {
		steps = 1
	}
	for i := 0; i < steps && !stuck; i++ {
		cj()
		switch what {
		case "req":
			switch k := r.Intn(10); {
			case k < 6 || len(subs) == 0:
				nsub++
				s := fmt.Sprintf("s%d", nsub)
				// re-issue an id whose EOSE was received
				if len(subs) > 0 && r.Intn(4) == 0 {
					cand := subs[r.Intn(len(subs))]
					egMu.Lock()
					ch := eoseGot[cand]
					egMu.Unlock()
					if !closed[cand] {
						select {
						case <-ch:
							s = cand
						case <-time.After(300 * time.Millisecond):
						}
					}
				}
				fs := filterChoices[r.Intn(len(filterChoices))]
				fsOf.set(s, fs)
				egMu.Lock()
				eoseGot[s] = make(chan struct{})
				egMu.Unlock()
				if s != "" {
					found := false
					for _, x := range subs {
						if x == s {
							found = true
						}
					}
					if !found {
						subs = append(subs, s)
					}
				}
				stuck = !offer(&mocrelay.ClientReqMsg{SubscriptionID: s, ReqFilters: conc.Filters(fs)})
				if closeRace && !stuck && r.Intn(3) != 0 {
					time.Sleep(time.Duration(r.Intn(500)) * time.Microsecond)
					closed[s] = true
					stuck = !offer(&mocrelay.ClientCloseMsg{SubscriptionID: s})
					continue
				}
				if r.Intn(2) == 0 { // often wait for the EOSE so that live events flow
					egMu.Lock()
					ch := eoseGot[s]
					egMu.Unlock()
					select {
					case <-ch:
						time.Sleep(time.Duration(r.Intn(600)) * time.Microsecond)
					case <-time.After(200 * time.Millisecond):
					}
				}
			default:
				s := subs[r.Intn(len(subs))]
				closed[s] = true
				stuck = !offer(&mocrelay.ClientCloseMsg{SubscriptionID: s})
			}
		case "okcount":
			if r.Intn(3) != 0 {
				e := pool[r.Intn(3)] // few ids: repeats in flight
				stuck = !offer(&mocrelay.ClientEventMsg{Event: conc.Event(e, "x")})
			} else if r.Intn(4) == 0 {
				// a CLOSE that carries the id of a COUNT possibly still in flight
				stuck = !offer(&mocrelay.ClientCloseMsg{SubscriptionID: fmt.Sprintf("c%d", r.Intn(2))})
			} else {
				s := fmt.Sprintf("c%d", r.Intn(2))
				stuck = !offer(&mocrelay.ClientCountMsg{SubscriptionID: s, ReqFilters: conc.Filters([]abs.Filter{{}})})
			}
		}
	}
	for _, c := range children {
		close(c.stopLv)
	}
	// the live emitters have stopped (an emission in progress is finished) before the final sentinel is sent
	emittersStopped := true
	for _, c := range children {
		if c.live {
			select {
			case <-c.lvDone:
			case <-time.After(2 * time.Second):
				emittersStopped = false
			}
		}
	}
	time.Sleep(500 * time.Microsecond)
	complete := false
	if !stuck && emittersStopped && offer(&mocrelay.ClientCountMsg{SubscriptionID: sentinelSub, ReqFilters: conc.Filters([]abs.Filter{{}})}) {
		select {
		case <-sentinel:
			complete = true
		case <-time.After(3 * time.Second):
		}
	}
	cancel()
	select {
	case <-done:
	case <-time.After(3 * time.Second):
	}
	rec.mu.Lock()
	tr.Lines = append(tr.Lines, rec.lines...)
	rec.mu.Unlock()
	if complete {
		tr.Lines = append(tr.Lines, map[string]any{"op": "quiesce", "shape": "quiesce: a reply is missing / a live event was not forwarded"})
	}
	return tr, complete
}

func absServerMulti(conc *abs.Conc, m mocrelay.ServerMsg, children []*scriptedChild, base map[string]abs.Event) map[string]any {
	return absServer(conc, m, func(l string) (abs.Event, bool) {
		if e, ok := base[l]; ok {
			return e, true
		}
		for _, c := range children {
			if e, ok := c.lookup(l); ok {
				return e, true
			}
		}
		return abs.Event{}, false
	})
}

// mergeModel: TLC explores the mechanism model MergeMC (composed with the
// MergeObs monitor) by random simulation (quick) / more simulation (thorough).
func mergeModel(run *core.Run, mode string) {
	num := 4000
	if run.Thorough() {
		num = 60000
	}
	res, err := tlcrun.Run(tlcrun.Options{Module: "MergeMC", Config: "MergeMC_" + mode + ".cfg", Workers: 16, Timeout: 20 * time.Minute,
		Simulate: fmt.Sprintf("num=%d", num), Depth: 60, Seed: run.Seed})
	if err != nil || !res.OK {
		tail := ""
		if res != nil {
			tail = res.Tail
		}
		if res != nil && res.PropertyViolated {
			run.Problem("the mechanism model MergeMC violates the MergeObs monitor (model / monitor error, not a verdict on the code):\n%s", tail)
		} else {
			run.Problem("TLC failed on MergeMC: %v\n%s", err, tail)
		}
		return
	}
	run.Add("model_states", res.Generated)
	run.Add("model_behaviours", res.SimTraces)
	// exhaustive configurations (every interleaving): reduced child scripts (Small = TRUE), two children;
	// "ok": 2 client messages (68k states, quick and thorough); "req": 2 client messages (15M states, thorough)
	var cfgs []string
	if mode == "ok" {
		cfgs = append(cfgs, "MergeMC_exok.cfg")
		if run.Thorough() {
			cfgs = append(cfgs, "MergeMC_exok3.cfg") // 3 client messages: 31M states
		}
	} else if run.Thorough() {
		cfgs = append(cfgs, "MergeMC_ex.cfg")
	}
	for _, cfg := range cfgs {
		res, err := tlcrun.Run(tlcrun.Options{Module: "MergeMC", Config: cfg, Workers: 16, Timeout: 40 * time.Minute, Heap: "20g"})
		if err != nil || !res.OK {
			tail := ""
			if res != nil {
				tail = res.Tail
			}
			run.Problem("TLC failed on / found an error in the exhaustive configuration %s of MergeMC (model error, not a verdict on the code): %v\n%s", cfg, err, tail)
			continue
		}
		run.Add("model_states_exhaustive", res.Distinct)
		run.Add("model_states", res.Generated)
	}
}

func mergeCheck(run *core.Run, what string, n int) {
	if what == "req" {
		mergeModel(run, "req")
	} else {
		mergeModel(run, "ok")
	}
	var traces []tv.Trace
	distinct := core.NewDistinct()
	incomplete := 0
	for i := 0; i < n; i++ {
		nChildren := 2 + i%2
		if i%7 == 6 {
			nChildren = 4
		}
		if what == "okcount" && i%9 == 8 {
			nChildren = 13 + i%4 // many children: the aggregation must not depend on how many there are
		}
		if what == "req" && i == 5 {
			nChildren = 65 + int(run.Seed%4) // more children than a machine word has bits
		}
		tr, complete := runMergeScenario(run, run.Seed*100000+int64(i), nChildren, what)
		if !complete {
			incomplete++
			run.Violate(what+":no reply to the final COUNT within 3s (a reply was lost or the session is stuck)",
				fmt.Sprintf("%s: %d lines recorded", tr.Name, len(tr.Lines)), map[string]any{"trace": tr.Lines})
		}
		if len(tr.Lines) > 170 && nChildren < 60 {
			run.Add("scenarios_skipped_too_long", 1)
			continue
		}
		traces = append(traces, tr)
		run.Add("observations", int64(len(tr.Lines)))
		distinct.Add(tr.Name)
	}
	// the merge of the real handlers (cache, router, SQLite), as cmd/mocrelay composes them
	for i := 0; i < n/6; i++ {
		tr, complete := runRealMergeScenario(run, run.Seed*777000+int64(i), what)
		if tr.Lines == nil {
			continue
		}
		if !complete {
			run.Violate(what+":real handlers: no reply to the final COUNT within 3s", fmt.Sprintf("%s: %d lines recorded", tr.Name, len(tr.Lines)), map[string]any{"trace": tr.Lines})
		}
		if len(tr.Lines) > 170 {
			run.Add("scenarios_skipped_too_long", 1)
			continue
		}
		traces = append(traces, tr)
		run.Add("observations", int64(len(tr.Lines)))
		run.Add("real_children_scenarios", 1)
		distinct.Add(tr.Name)
	}
	out, err := tv.Validate(mergeTraceSpec, nil, traces, 6)
	if out != nil {
		run.Add("traces_validated_against_impl", int64(out.Accepted+len(out.Rejects)))
		run.Add("trace_lines", int64(out.Lines))
		run.Add("states", out.TLCStates)
		run.Add("transitions", out.TLCTrans)
	}
	if err != nil {
		run.Problem("MergeTrace validation failed to run: %v", err)
		return
	}
	for _, rj := range out.Rejects {
		b, _ := json.Marshal(rj.Line)
		run.Violate("trace:"+lineShape(rj.Line), fmt.Sprintf("%s line %d is not allowed by MergeObs: %s", rj.Trace.Name, rj.LineIdx, b),
			map[string]any{"trace": rj.Trace.Lines[:rj.LineIdx+1]})
	}
	if len(traces) > 0 {
		run.Sample(map[string]any{"name": traces[0].Name, "first_lines": traces[0].Lines[:min(8, len(traces[0].Lines))]})
	}
	run.Set("evaluations", run.Get("observations"))
	run.Set("distinct_nontrivial", distinct.Len())
}

func mergeCanary(run *core.Run, what string) {
	// find a trace with an EOSE (or OK) received by the client and duplicate that line
	for i := 0; i < 20; i++ {
		tr, complete := runMergeScenario(run, 777000+int64(i), 2, what)
		if !complete {
			continue
		}
		want := "EOSE"
		if what == "okcount" {
			want = "OK"
		}
		var lines []any
		done := false
		for _, l := range tr.Lines {
			lines = append(lines, l)
			m := l.(map[string]any)
			if !done && m["op"] == "ev" && m["t"] == "cgot" && m["m"].(map[string]any)["k"] == want {
				lines = append(lines, l)
				done = true
			}
		}
		if !done {
			continue
		}
		rej, err := tv.Rejects(mergeTraceSpec, nil, tv.Trace{Name: "canary", Lines: lines})
		if err != nil {
			run.Problem("canary failed to run: %v", err)
		} else if !rej {
			run.Problem("canary (a duplicated %s at the client) accepted by MergeTrace", want)
		} else {
			run.Add("canaries_rejected", 1)
		}
		return
	}
	run.Problem("no canary trace could be produced")
}

// tap wraps a real child handler and records what it receives from the merge
// (chrecv, after receiving) and what it emits (emits, before offering it to
// the merge), so that MergeObs can judge the merge of the real handlers.
type tap struct {
	idx  int
	h    mocrelay.Handler
	rec  *recorder
	conc *abs.Conc
	fsOf *fsTable
	evOf func(string) (abs.Event, bool)
}

func (t *tap) ServeNostr(ctx context.Context, send chan<- mocrelay.ServerMsg, recv <-chan mocrelay.ClientMsg) error {
	ctx, cancel := context.WithCancel(ctx)
	defer cancel()
	inRecv := make(chan mocrelay.ClientMsg)
	inSend := make(chan mocrelay.ServerMsg)
	var wg sync.WaitGroup
	wg.Add(2)
	go func() {
		defer wg.Done()
		defer close(inRecv)
		for {
			select {
			case <-ctx.Done():
				return
			case m, ok := <-recv:
				if !ok {
					return
				}
				t.rec.log("chrecv", t.idx, absClient(t.conc, m, t.fsOf))
				select {
				case inRecv <- m:
				case <-ctx.Done():
					return
				}
			}
		}
	}()
	go func() {
		defer wg.Done()
		for {
			select {
			case <-ctx.Done():
				return
			case m := <-inSend:
				t.rec.log("emits", t.idx, absServer(t.conc, m, t.evOf))
				select {
				case send <- m:
				case <-ctx.Done():
					return
				}
			}
		}
	}()
	err := t.h.ServeNostr(ctx, inSend, inRecv)
	cancel()
	wg.Wait()
	return err
}

// runRealMergeScenario: the merge of the real handlers (cache, router, SQLite -- the
// composition cmd/mocrelay runs), each behind a tap, driven by a pipelining client.
func runRealMergeScenario(run *core.Run, seed int64, what string) (tv.Trace, bool) {
	r := rand.New(rand.NewSource(seed))
	conc := abs.NewConc()
	rec := &recorder{}
	fsOf := &fsTable{m: map[string][]abs.Filter{}}
	var evMu sync.Mutex
	evs := map[string]abs.Event{}
	evOf := func(l string) (abs.Event, bool) { evMu.Lock(); defer evMu.Unlock(); e, ok := evs[l]; return e, ok }
	st, err := openMemSQL()
	if err != nil {
		run.Problem("sqlite: %v", err)
		return tv.Trace{}, false
	}
	sctx, scancel := context.WithCancel(context.Background())
	defer func() { scancel(); time.Sleep(5 * time.Millisecond); st.Close() }()
	sqlh, err := mocsqliteNew(sctx, st)
	if err != nil {
		run.Problem("sqlite handler: %v", err)
		return tv.Trace{}, false
	}
	children := []mocrelay.Handler{mocrelay.NewCacheHandler(4 + r.Intn(4)), mocrelay.NewRouterHandler(64), sqlh}
	n := len(children)
	var hs []mocrelay.Handler
	for i, c := range children {
		hs = append(hs, &tap{idx: i + 1, h: c, rec: rec, conc: conc, fsOf: fsOf, evOf: evOf})
	}
	h := mocrelay.NewMergeHandler(hs...)
	ctx, cancel := context.WithCancel(context.Background())
	defer cancel()
	send := make(chan mocrelay.ServerMsg)
	recv := make(chan mocrelay.ClientMsg)
	done := make(chan error, 1)
	go func() { done <- h.ServeNostr(ctx, send, recv) }()
	eoseGot := map[string]chan struct{}{}
	var egMu sync.Mutex
	sentinel := make(chan struct{})
	go func() {
		for {
			select {
			case <-ctx.Done():
				return
			case m := <-send:
				rec.log("cgot", 0, absServer(conc, m, evOf))
				switch m := m.(type) {
				case *mocrelay.ServerEOSEMsg:
					egMu.Lock()
					if ch, ok := eoseGot[m.SubscriptionID]; ok {
						select {
						case <-ch:
						default:
							close(ch)
						}
					}
					egMu.Unlock()
				case *mocrelay.ServerCountMsg:
					if m.SubscriptionID == sentinelSub {
						close(sentinel)
						return
					}
				}
			}
		}
	}()
	offer := func(m mocrelay.ClientMsg) bool {
		rec.log("csnd", 0, absClient(conc, m, fsOf))
		select {
		case recv <- m:
			return true
		case <-time.After(5 * time.Second):
			return false
		}
	}
	tr := tv.Trace{Name: fmt.Sprintf("realmerge-%s-seed%d", what, seed)}
	tr.Lines = append(tr.Lines, map[string]any{"op": "reset", "n": n})
	filterChoices := [][]abs.Filter{{{}}, {{Kinds: abs.IntSet{P: true, S: []int64{1}}}}, {{Limit: abs.OptInt{P: true, V: 1}}}, {{Limit: abs.OptInt{P: true, V: 2}, Authors: abs.StrSet{P: true, S: []string{"a", "b"}}}}, {{Kinds: abs.IntSet{P: true, S: []int64{2}}}, {Since: abs.OptInt{P: true, V: 3}}}}
	g := NewGen(r, "rm")
	g.SQL = true
	g.MaxTS = 6
	nsub := 0
	stuck := false
	steps := 5 + r.Intn(6)
	for i := 0; i < steps && !stuck; i++ {
		if r.Intn(3) == 0 {
			time.Sleep(time.Duration(r.Intn(300)) * time.Microsecond)
		}
		k := r.Intn(10)
		switch {
		case k < 5:
			var e abs.Event
			if what == "okcount" && len(g.Hist) > 0 && r.Intn(2) == 0 {
				e = g.Hist[r.Intn(len(g.Hist))] // repeated id, possibly in flight
			} else {
				e = g.Event()
				e.Tags = nil
				if e.Kind == 5 || cls(e.Kind) != "regular" {
					e.Kind = int64(1 + r.Intn(2))
				}
			}
			evMu.Lock()
			evs[e.ID] = e
			evMu.Unlock()
			stuck = !offer(&mocrelay.ClientEventMsg{Event: conc.Event(e, "x")})
		case k < 8 && what == "req":
			nsub++
			s := fmt.Sprintf("s%d", nsub)
			fs := filterChoices[r.Intn(len(filterChoices))]
			fsOf.set(s, fs)
			egMu.Lock()
			eoseGot[s] = make(chan struct{})
			ch := eoseGot[s]
			egMu.Unlock()
			stuck = !offer(&mocrelay.ClientReqMsg{SubscriptionID: s, ReqFilters: conc.Filters(fs)})
			if r.Intn(2) == 0 {
				select {
				case <-ch:
				case <-time.After(300 * time.Millisecond):
				}
			}
		case k < 9 && what == "req" && nsub > 0:
			stuck = !offer(&mocrelay.ClientCloseMsg{SubscriptionID: fmt.Sprintf("s%d", 1+r.Intn(nsub))})
		default:
			stuck = !offer(&mocrelay.ClientCountMsg{SubscriptionID: fmt.Sprintf("c%d", r.Intn(2)), ReqFilters: conc.Filters([]abs.Filter{{}})})
		}
	}
	time.Sleep(500 * time.Microsecond)
	complete := false
	if !stuck && offer(&mocrelay.ClientCountMsg{SubscriptionID: sentinelSub, ReqFilters: conc.Filters([]abs.Filter{{}})}) {
		select {
		case <-sentinel:
			complete = true
		case <-time.After(3 * time.Second):
		}
	}
	cancel()
	select {
	case <-done:
	case <-time.After(3 * time.Second):
	}
	rec.mu.Lock()
	tr.Lines = append(tr.Lines, rec.lines...)
	rec.mu.Unlock()
	if complete {
		tr.Lines = append(tr.Lines, map[string]any{"op": "quiesce_replies", "shape": "quiesce: an OK / COUNT / EOSE reply is missing (real handlers)"})
	}
	return tr, complete
}

func mocsqliteNew(ctx context.Context, st *sqlStore) (mocrelay.Handler, error) {
	return mocsqlite.NewSQLiteHandler(ctx, st.db, &mocsqlite.SQLiteHandlerOption{EventBulkInsertNum: 1, EventBulkInsertDur: time.Hour, MaxLimit: mocsqlite.NoLimit})
}

// absCount maps counts to the model's (32 bit) integers, order-preserving for the values the scripted children use.
func absCount(n uint64) int64 {
	switch {
	case n == math.MaxUint64:
		return 1000003
	case n >= 1<<63:
		return 1000002
	case n >= 1<<62:
		return 1000001
	case n > 1000000:
		return 1000000
	}
	return int64(n)
}
