package checks

import (
	"context"
	"crypto/sha256"
	"encoding/hex"
	"encoding/json"
	"fmt"
	"math/rand"
	"net/http/httptest"
	"reflect"
	"strings"
	"sync"
	"time"

	"github.com/btcsuite/btcd/btcec/v2/schnorr"
	"github.com/coder/websocket"
	"github.com/high-moctane/mocrelay"

	"verif/harness/internal/abs"
	"verif/harness/internal/core"
	"verif/harness/internal/tlcrun"
	"verif/harness/internal/tv"
)

var gateTraceSpec = tv.Spec{Module: "GateTrace", Config: "GateTrace.cfg"}

// recHandler records what it receives and emits a scripted number of
// distinguishable server messages per received message.
type recHandler struct {
	mu       sync.Mutex
	received []mocrelay.ClientMsg
	emitted  []mocrelay.ServerMsg
	emitPlan func(nthReceived int) int
	ev       *mocrelay.Event
}

func (h *recHandler) nextEmission(n int) mocrelay.ServerMsg {
	tag := fmt.Sprintf("h:%d", n)
	switch n % 7 {
	case 0:
		return mocrelay.NewServerNoticeMsg(tag + " 日本😀<>& \"\\")
	case 1:
		return mocrelay.NewServerEventMsg(tag, h.ev)
	case 2:
		return mocrelay.NewServerEOSEMsg(tag)
	case 3:
		if n%3 == 0 { // a text that begins with its own prefix is still that text
			return mocrelay.NewServerOKMsg(h.ev.ID, false, mocrelay.MachineReadablePrefixInvalid, mocrelay.MachineReadablePrefixInvalid+tag)
		}
		return mocrelay.NewServerOKMsg(h.ev.ID, n%2 == 0, mocrelay.MachineReadablePrefixDuplicate, tag)
	case 4:
		ap := true
		return mocrelay.NewServerCountMsg(tag, uint64(n)+9007199254740993, &ap)
	case 5:
		return mocrelay.NewServerClosedMsg(tag, mocrelay.MachineReadablePrefixError, "closed")
	default:
		return &mocrelay.ServerAuthMsg{Challenge: tag}
	}
}

func (h *recHandler) ServeNostr(ctx context.Context, send chan<- mocrelay.ServerMsg, recv <-chan mocrelay.ClientMsg) error {
	for {
		select {
		case <-ctx.Done():
			return ctx.Err()
		case m, ok := <-recv:
			if !ok {
				return mocrelay.ErrRecvClosed
			}
			h.mu.Lock()
			h.received = append(h.received, m)
			nth := len(h.received)
			h.mu.Unlock()
			if c, ok := m.(*mocrelay.ClientCountMsg); ok && (c.SubscriptionID == sentinelSub || c.SubscriptionID == mwSentinel) {
				select {
				case send <- mocrelay.NewServerCountMsg(c.SubscriptionID, 0, nil):
				case <-ctx.Done():
					return ctx.Err()
				}
				continue
			}
			k := h.emitPlan(nth)
			for i := 0; i < k; i++ {
				h.mu.Lock()
				msg := h.nextEmission(len(h.emitted) + 1)
				h.emitted = append(h.emitted, msg)
				h.mu.Unlock()
				select {
				case send <- msg:
				case <-ctx.Done():
					return ctx.Err()
				}
			}
		}
	}
}

type frame struct {
	class  string
	binary bool
	data   []byte
	ev     *mocrelay.Event // class "event": the authentic event of the frame
}

type frameGen struct {
	conc *abs.Conc
	w    *wireRender
	r    *rand.Rand
	// Wire.tla cases by verdict, rendered
	wireReject []string
}

// marker f<k>, now and then followed by characters a careless gate could stumble over (a literal
// U+FFFD, a BOM, U+2028, the last code point, a combining sequence): all well-formed UTF-8
func (g *frameGen) marker(k int) string {
	suffix := []string{"", "", "", " \uFFFD", " \uFEFF", " \u2028x", " \U0010FFFF", " e\u0301"}[k%8]
	return fmt.Sprintf("f%d", k) + suffix
}

// frameOf renders the k-th frame of a given class; valid frames carry the
// marker f<k> (subscription id or event content).
func (g *frameGen) frameOf(class string, k int) frame {
	mk := g.marker(k)
	signed := func(kind int64) *mocrelay.Event {
		return g.conc.SignRaw([]string{"a", "b", "c"}[k%3], 1700000000+int64(k), kind, []mocrelay.Tag{{"t", "x"}}, mk)
	}
	js := func(v any) []byte { b, _ := json.Marshal(v); return b }
	switch class {
	case "event":
		e := signed(1)
		return frame{class: class, data: js(&mocrelay.ClientEventMsg{Event: e}), ev: e}
	case "auth":
		e := signed(22242)
		if g.r.Intn(3) == 0 {
			// authenticity is demanded of EVENT only: an AUTH whose event does not verify is a valid message
			e.Sig = flipHexBit(e.Sig, g.r.Intn(128))
		}
		return frame{class: class, data: js(&mocrelay.ClientAuthMsg{Event: e})}
	case "req":
		texts := []string{`["REQ",%s,{}]`, ` [ "REQ" , %s , {"kinds":[1],"limit":3} , {"#a":["30000:` + g.w.pk + `:a:b"]} ] `, "[\"REQ\",%s,{\"since\":1,\"until\":2}]\n"}
		return frame{class: class, data: []byte(fmt.Sprintf(texts[g.r.Intn(len(texts))], q(mk)))}
	case "close":
		return frame{class: class, data: []byte(fmt.Sprintf(`["CLOSE",%s]`, q(mk)))}
	case "count":
		return frame{class: class, data: []byte(fmt.Sprintf(`["COUNT",%s,{"authors":[%s]}]`, q(mk), q(g.w.pk)))}
	case "binary":
		return frame{class: class, binary: true, data: []byte(fmt.Sprintf(`["REQ",%s,{}]`, q(mk)))}
	case "nonjson":
		opts := [][]byte{[]byte("hello"), []byte(`["REQ",` + q(mk)), []byte("[\"CLOSE\",\"\xff\xfe\"]"), []byte(""), []byte(`["REQ","x",{}] trailing`)}
		return frame{class: class, data: opts[g.r.Intn(len(opts))]}
	case "nonarray":
		opts := []string{`{"a":1}`, `"EVENT"`, `1`, `null`, `true`}
		return frame{class: class, data: []byte(opts[g.r.Intn(len(opts))])}
	case "unknownlabel":
		opts := []string{`["FOO",` + q(mk) + `]`, `["req",` + q(mk) + `,{}]`, `["OK","x",true,""]`, `[]`, `[1]`}
		return frame{class: class, data: []byte(opts[g.r.Intn(len(opts))])}
	case "illtyped":
		opts := []string{`["REQ",1,{}]`, `["EVENT","x"]`, `["CLOSE"]`, `["CLOSE",` + q(mk) + `,"x"]`, `["EVENT",{"id":1}]`, `["REQ",` + q(mk) + `,{"ids":"x"}]`, `["COUNT",` + q(mk) + `,[]]`}
		return frame{class: class, data: []byte(opts[g.r.Intn(len(opts))])}
	case "invalidfield":
		if len(g.wireReject) > 0 && g.r.Intn(2) == 0 {
			return frame{class: class, data: []byte(g.wireReject[g.r.Intn(len(g.wireReject))])}
		}
		e := signed(1)
		switch g.r.Intn(6) {
		case 0:
			e.ID = strings.ToUpper(e.ID)
		case 1:
			e.Sig = e.Sig[:127]
		case 2:
			e.Kind = 70000
		case 3:
			e = signed(70000) // correctly signed, but the kind is out of range
		case 4:
			e = signed(-1)
		case 5:
			e = g.conc.SignRaw("a", 1700000000+int64(k), 1, []mocrelay.Tag{{}}, mk) // correctly signed, with an empty tag
		}
		return frame{class: class, data: js(&mocrelay.ClientEventMsg{Event: e})}
	case "forgedsig":
		e := signed(1)
		switch g.r.Intn(5) {
		case 0:
			e.Sig = flipHexBit(e.Sig, g.r.Intn(128))
		case 4:
			e.Sig = upperOneHexLetter(e.Sig, g.r.Intn(128)) // same bytes, not lower-case hex
		case 1:
			o := g.conc.SignRaw("z", 1, 1, nil, "other")
			e.Sig = o.Sig
		case 2:
			e.Sig = strings.Repeat("f", 128) // correct id, a signature that cannot even be parsed
		default:
			// correct id for a public key that is not on the curve
			e.Pubkey = offCurvePubkey()
			h := sha256.Sum256(abs.Canonical(e.Pubkey, e.CreatedAt, e.Kind, e.Tags, e.Content))
			e.ID = hex.EncodeToString(h[:])
		}
		return frame{class: class, data: js(&mocrelay.ClientEventMsg{Event: e})}
	case "altered":
		e := signed(1)
		switch g.r.Intn(5) {
		case 4:
			e.ID = upperOneHexLetter(e.ID, g.r.Intn(64)) // same bytes, not lower-case hex
		case 0:
			e.Content += "!"
		case 1:
			e.CreatedAt++
		case 2:
			e.Tags = append(e.Tags, mocrelay.Tag{"t", "y"})
		case 3:
			e.ID = flipHexBit(e.ID, g.r.Intn(64))
		}
		return frame{class: class, data: js(&mocrelay.ClientEventMsg{Event: e})}
	}
	return frame{class: "nonjson", data: []byte("?")}
}

var offCurve string

// offCurvePubkey returns a 32-byte x coordinate that is not on secp256k1.
func offCurvePubkey() string {
	if offCurve != "" {
		return offCurve
	}
	for i := 0; ; i++ {
		h := sha256.Sum256([]byte(fmt.Sprint("verif-offcurve", i)))
		if _, err := schnorr.ParsePubKey(h[:]); err != nil {
			offCurve = hex.EncodeToString(h[:])
			return offCurve
		}
	}
}

func markerOf(m mocrelay.ClientMsg) string {
	switch m := m.(type) {
	case *mocrelay.ClientEventMsg:
		if m.Event != nil {
			return m.Event.Content
		}
	case *mocrelay.ClientAuthMsg:
		if m.Event != nil {
			return m.Event.Content
		}
	case *mocrelay.ClientReqMsg:
		return m.SubscriptionID
	case *mocrelay.ClientCountMsg:
		return m.SubscriptionID
	case *mocrelay.ClientCloseMsg:
		return m.SubscriptionID
	}
	return ""
}

func decodeServer(b []byte) (mocrelay.ServerMsg, error) {
	var head []json.RawMessage
	if err := json.Unmarshal(b, &head); err != nil || len(head) == 0 {
		return nil, fmt.Errorf("not an array: %s", b)
	}
	var label string
	if err := json.Unmarshal(head[0], &label); err != nil {
		return nil, err
	}
	var v mocrelay.ServerMsg
	switch label {
	case "EVENT":
		v = new(mocrelay.ServerEventMsg)
	case "EOSE":
		v = new(mocrelay.ServerEOSEMsg)
	case "NOTICE":
		v = new(mocrelay.ServerNoticeMsg)
	case "OK":
		v = new(mocrelay.ServerOKMsg)
	case "AUTH":
		v = new(mocrelay.ServerAuthMsg)
	case "COUNT":
		v = new(mocrelay.ServerCountMsg)
	case "CLOSED":
		v = new(mocrelay.ServerClosedMsg)
	default:
		return nil, fmt.Errorf("unknown label %q", label)
	}
	if err := json.Unmarshal(b, v); err != nil {
		return nil, err
	}
	return v, nil
}

// runGateSession sends the frames over a real WebSocket connection and
// returns the session line for GateTrace.
func runGateSession(url string, frames []frame, emitPlan func(int) int, ev *mocrelay.Event, newRelay func(h mocrelay.Handler) (*httptest.Server, func())) (line map[string]any, problem string) {
	h := &recHandler{emitPlan: emitPlan, ev: ev}
	srv, stop := newRelay(h)
	defer stop()
	ctx, cancel := context.WithTimeout(context.Background(), 20*time.Second)
	defer cancel()
	conn, _, err := websocket.Dial(ctx, "ws"+strings.TrimPrefix(srv.URL, "http"), nil)
	if err != nil {
		return nil, "dial: " + err.Error()
	}
	defer conn.CloseNow()
	conn.SetReadLimit(1 << 22)
	type rx struct {
		typ websocket.MessageType
		b   []byte
	}
	var got []rx
	done := make(chan string, 1)
	go func() {
		for {
			typ, b, err := conn.Read(ctx)
			if err != nil {
				done <- "connection ended before the sentinel reply: " + err.Error()
				return
			}
			if typ == websocket.MessageText {
				if m, err := decodeServer(b); err == nil {
					if c, ok := m.(*mocrelay.ServerCountMsg); ok && c.SubscriptionID == sentinelSub {
						done <- ""
						return
					}
				}
			}
			got = append(got, rx{typ, b})
		}
	}()
	for _, f := range frames {
		if f.class == "pause" {
			time.Sleep(900 * time.Millisecond) // the session outlives the send timeout
			continue
		}
		typ := websocket.MessageText
		if f.binary {
			typ = websocket.MessageBinary
		}
		if err := conn.Write(ctx, typ, f.data); err != nil {
			return nil, "write: " + err.Error()
		}
	}
	if err := conn.Write(ctx, websocket.MessageText, []byte(`["COUNT","`+sentinelSub+`",{}]`)); err != nil {
		return nil, "write sentinel: " + err.Error()
	}
	usable := true
	if msg := <-done; msg != "" {
		usable = false
		_ = msg
	}
	h.mu.Lock()
	defer h.mu.Unlock()
	classes := []string{}
	for _, f := range frames {
		if f.class != "pause" {
			classes = append(classes, f.class)
		}
	}
	var byMarker []frame // frames without the pauses: marker f<k> is the k-th of them
	for _, f := range frames {
		if f.class != "pause" {
			byMarker = append(byMarker, f)
		}
	}
	toHandler := []int{}
	for _, m := range h.received {
		mk := markerOf(m)
		if mk == sentinelSub {
			continue
		}
		idx := 0
		fmt.Sscanf(mk, "f%d", &idx)
		// the handler must have received the very message of that frame
		if idx >= 1 && idx <= len(byMarker) {
			pm, err := mocrelay.ParseClientMsg(byMarker[idx-1].data)
			if err != nil || !reflect.DeepEqual(pm, m) {
				idx = 0
			}
		} else {
			idx = 0
		}
		toHandler = append(toHandler, idx)
	}
	toClient := []map[string]any{}
	nextH := 0
	for _, g := range got {
		if g.typ != websocket.MessageText {
			toClient = append(toClient, map[string]any{"src": "x", "n": 0})
			continue
		}
		m, err := decodeServer(g.b)
		if err != nil {
			toClient = append(toClient, map[string]any{"src": "x", "n": 0})
			continue
		}
		// a handler emission? (the next expected one, or any emitted one)
		matched := 0
		for i := nextH; i < len(h.emitted); i++ {
			if reflect.DeepEqual(m, h.emitted[i]) {
				matched = i + 1
				break
			}
		}
		if matched == 0 {
			for i := 0; i < nextH && i < len(h.emitted); i++ {
				if reflect.DeepEqual(m, h.emitted[i]) {
					matched = i + 1
					break
				}
			}
		}
		if matched > 0 {
			toClient = append(toClient, map[string]any{"src": "h", "n": matched})
			if matched == nextH+1 {
				nextH = matched
			}
			continue
		}
		// otherwise it must be a rejection: NOTICE, rejecting OK or CLOSED
		switch mm := m.(type) {
		case *mocrelay.ServerNoticeMsg, *mocrelay.ServerClosedMsg:
			toClient = append(toClient, map[string]any{"src": "r", "n": 0})
		case *mocrelay.ServerOKMsg:
			if !mm.Accepted {
				toClient = append(toClient, map[string]any{"src": "r", "n": 0})
			} else {
				toClient = append(toClient, map[string]any{"src": "x", "n": 0})
			}
		default:
			toClient = append(toClient, map[string]any{"src": "x", "n": 0})
		}
	}
	if !usable {
		// the connection did not survive: recorded as an unexplained message
		toClient = append(toClient, map[string]any{"src": "x", "n": -1})
	}
	line = map[string]any{"frames": classes, "toHandler": toHandler, "emitted": len(h.emitted), "toClient": toClient,
		"shape": "session " + strings.Join(classes, ",")}
	return line, ""
}

// C12: WebSocket session gate.
func C12(run *core.Run) {
	maxFrames := 2
	if run.Thorough() {
		maxFrames = 3
	}
	var seqs [][]string
	res, err := tlcrun.Run(tlcrun.Options{
		Module: "Gate", Config: "Gate.cfg", Workers: 8, Timeout: 20 * time.Minute,
		Consts: map[string]string{"MaxFrames": fmt.Sprint(maxFrames)},
		OnJSON: func(line string) {
			var t struct {
				Frames []string `json:"frames"`
			}
			if json.Unmarshal([]byte(line), &t) == nil {
				seqs = append(seqs, t.Frames)
			}
		},
	})
	if err != nil || !res.OK {
		tail := ""
		if res != nil {
			tail = res.Tail
		}
		run.Problem("TLC failed on Gate: %v\n%s", err, tail)
		return
	}
	run.Set("states", res.Distinct)
	run.Set("transitions", res.Generated)

	conc := abs.NewConc()
	r := run.Rand("c12")
	w := newWireRender(conc)
	g := &frameGen{conc: conc, w: w, r: r}
	if cases, _, ok := loadWire(run, false); ok {
		for _, c := range cases {
			if c.Verdict == "reject" && c.M.Env["top"] == "array" && c.M.Env["label"] == "ok" {
				g.wireReject = append(g.wireReject, w.render(c))
			}
		}
	}
	newRelay := func(h mocrelay.Handler) (*httptest.Server, func()) {
		opt := mocrelay.NewDefaultRelayOption()
		opt.RecvRateLimitRate = 1e9
		opt.RecvRateLimitBurst = 1 << 30
		opt.MaxMessageLength = 1 << 20
		relay := mocrelay.NewRelay(h, opt)
		srv := httptest.NewServer(relay)
		return srv, func() { srv.Close() }
	}
	distinct := core.NewDistinct()
	var lines []any
	var linesMu sync.Mutex
	runSeq := func(classes []string, emitMax int, rr *rand.Rand) {
		var frames []frame
		var authentic []*mocrelay.Event
		for k, c := range classes {
			f := g.frameOf(c, k+1)
			if c == "altered" && len(authentic) > 0 && rr.Intn(2) == 0 {
				// an authentic event that this very session has already submitted, with another body
				// under the same id and signature
				e := *authentic[rr.Intn(len(authentic))]
				e.Content = g.marker(k + 1)
				b, _ := json.Marshal(&mocrelay.ClientEventMsg{Event: &e})
				f = frame{class: c, data: b}
			}
			if f.ev != nil {
				authentic = append(authentic, f.ev)
			}
			frames = append(frames, f)
		}
		plan := map[int]int{}
		emitPlan := func(n int) int {
			if v, ok := plan[n]; ok {
				return v
			}
			plan[n] = rr.Intn(emitMax + 1)
			return plan[n]
		}
		line, problem := runGateSession("", frames, emitPlan, w.ev, newRelay)
		if strings.HasPrefix(problem, "write") {
			var cls []string
			for _, f := range frames {
				cls = append(cls, f.class)
			}
			run.Violate("session:connection dropped in the middle of a session of small frames (the client kept reading)",
				fmt.Sprintf("frame classes %v: %s", cls, problem), map[string]any{"classes": cls, "problem": problem})
			return
		}
		if problem != "" {
			run.Problem("session could not be run: %s", problem)
			return
		}
		linesMu.Lock()
		lines = append(lines, line)
		linesMu.Unlock()
		run.Add("frames_sent", int64(len(frames)))
	}
	// (1) every frame sequence of the model
	sem := make(chan struct{}, 8)
	var wg sync.WaitGroup
	for i, s := range seqs {
		distinct.Add(strings.Join(s, ","))
		wg.Add(1)
		sem <- struct{}{}
		go func(s []string, i int) {
			defer wg.Done()
			defer func() { <-sem }()
			g2 := *g
			g2.r = rand.New(rand.NewSource(run.Seed*1000003 + int64(i)))
			gg := &g2
			var frames []frame
			for k, c := range s {
				frames = append(frames, gg.frameOf(c, k+1))
			}
			rr := rand.New(rand.NewSource(run.Seed + int64(i)))
			line, problem := runGateSession("", frames, func(n int) int { return (n*7 + i) % 3 }, w.ev, newRelay)
			_ = rr
			if problem != "" {
				run.Problem("session could not be run: %s", problem)
				return
			}
			linesMu.Lock()
			lines = append(lines, line)
			linesMu.Unlock()
			run.Add("frames_sent", int64(len(frames)))
		}(s, i)
	}
	wg.Wait()
	// (2) long seeded sequences
	nLong, lenLong := 6, 120
	if run.Thorough() {
		nLong, lenLong = 200, 600
	}
	classes := []string{"event", "req", "close", "count", "auth", "binary", "nonjson", "nonarray", "unknownlabel", "illtyped", "invalidfield", "forgedsig", "altered"}
	for i := 0; i < nLong; i++ {
		var s []string
		for k := 0; k < lenLong; k++ {
			s = append(s, classes[r.Intn(len(classes))])
		}
		distinct.Add(fmt.Sprint("long", i))
		runSeq(s, 3, r)
	}
	// (3) sessions that outlive the send timeout: SendTimeout 500 ms, a 900 ms pause in the middle;
	// the client reads all the time, so the relay has no reason to drop the connection
	slowRelay := func(h mocrelay.Handler) (*httptest.Server, func()) {
		opt := mocrelay.NewDefaultRelayOption()
		opt.RecvRateLimitRate = 1e9
		opt.RecvRateLimitBurst = 1 << 30
		opt.SendTimeout = 500 * time.Millisecond
		opt.PingDuration = []time.Duration{0, time.Minute}[r.Intn(2)]
		srv := httptest.NewServer(mocrelay.NewRelay(h, opt))
		return srv, func() { srv.Close() }
	}
	for i := 0; i < 3; i++ {
		var frames []frame
		k := 0
		for j := 0; j < 8; j++ {
			if j == 4 {
				frames = append(frames, frame{class: "pause"})
				continue
			}
			k++
			frames = append(frames, g.frameOf(classes[r.Intn(len(classes))], k))
		}
		line, problem := runGateSession("", frames, func(n int) int { return 1 }, w.ev, slowRelay)
		if strings.HasPrefix(problem, "write") {
			run.Violate("session:connection dropped although the client kept reading (session longer than SendTimeout)",
				"a session with a 900 ms pause (SendTimeout 500 ms, reader never stalled) was torn down by the relay: "+problem,
				map[string]any{"frames": len(frames), "problem": problem})
			continue
		}
		if problem != "" {
			run.Problem("session could not be run: %s", problem)
			continue
		}
		line["shape"] = "session outliving SendTimeout: " + fmt.Sprint(line["shape"])
		lines = append(lines, line)
		run.Add("frames_sent", int64(len(frames)-1))
		distinct.Add(fmt.Sprint("slow", i))
	}
	traces := []tv.Trace{}
	for i, l := range lines {
		traces = append(traces, tv.Trace{Name: fmt.Sprintf("session-%d", i), Lines: []any{l}})
	}
	out, err := tv.ValidateChunks(gateTraceSpec, nil, traces, 6, 400, 8)
	if out != nil {
		run.Add("traces_validated_against_impl", int64(out.Accepted+len(out.Rejects)))
	}
	if err != nil {
		run.Problem("GateTrace validation failed to run: %v", err)
	} else {
		for _, rj := range out.Rejects {
			b, _ := json.Marshal(rj.Line)
			m := rj.Line.(map[string]any)
			run.Violate("session:"+gateDiagnosis(m), fmt.Sprintf("session not explained by Gate: %s", trunc(b)), map[string]any{"session": rj.Line})
		}
		if len(lines) > 0 {
			run.Sample(lines[len(lines)-1].(map[string]any)["shape"])
			run.Sample(lines[len(lines)/2])
			// canary: a session line whose handler log contains an invalid frame
			c := map[string]any{"frames": []string{"req", "nonjson"}, "toHandler": []int{1, 2}, "emitted": 0,
				"toClient": []map[string]any{{"src": "r", "n": 0}}}
			rej, err := tv.Rejects(gateTraceSpec, nil, tv.Trace{Name: "canary", Lines: []any{c}})
			if err != nil {
				run.Problem("canary failed to run: %v", err)
			} else if !rej {
				run.Problem("canary (invalid frame reached the handler) accepted by GateTrace")
			} else {
				run.Add("canaries_rejected", 1)
			}
		}
	}
	run.Set("rule", "Gate.tla (reader / handler / writer over unbuffered channels) is model-checked for every frame sequence up to MaxFrames over 13 frame classes (5 valid, 8 invalid: binary, not JSON, not an array, unknown label, ill-typed, invalid field incl. every rejecting Wire.tla case, forged signature, altered signed event) with safety invariants and the liveness property that the session reaches quiescence; every such sequence plus seeded long sequences (quick 6x~120, thorough 40x~600 frames) is sent over a real WebSocket connection to NewRelay(recordingHandler) with really signed events; the recorded session (frames, handler log attributed by markers and compared with the sent message, handler emissions, client frames decoded and compared with the emissions) is validated by TLC against GateOK. distinct_nontrivial = distinct frame sequences")
	run.Set("evaluations", run.Get("frames_sent"))
	run.Set("distinct_nontrivial", distinct.Len())
	run.Assume = append(run.Assume, "rate limiting is configured out of the way; frames stay below MaxMessageLength", "AUTH events are not required to be authentic (the property says so for EVENT only)")
}

func gateDiagnosis(m map[string]any) string {
	frames, _ := m["frames"].([]string)
	th, _ := m["toHandler"].([]int)
	tc, _ := m["toClient"].([]map[string]any)
	var valid []int
	inv := 0
	for i, c := range frames {
		switch c {
		case "event", "req", "close", "count", "auth":
			valid = append(valid, i+1)
		default:
			inv++
		}
	}
	if !reflect.DeepEqual(append([]int{}, th...), append([]int{}, valid...)) && !(len(th) == 0 && len(valid) == 0) {
		// which class is involved
		for _, idx := range th {
			if idx == 0 {
				return "handler received a message that is not the frame's message"
			}
			if idx <= len(frames) {
				c := frames[idx-1]
				if c != "event" && c != "req" && c != "close" && c != "count" && c != "auth" {
					return "invalid frame reached the handler: " + c
				}
			}
		}
		if len(th) < len(valid) {
			return "valid frame did not reach the handler"
		}
		return "handler log differs from the valid frames (order / duplicates)"
	}
	r, x, h := 0, 0, 0
	for _, c := range tc {
		switch c["src"] {
		case "r":
			r++
		case "x":
			x++
		case "h":
			h++
		}
	}
	if x > 0 {
		return "client received a frame that is neither a handler emission nor a rejection (or the connection ended)"
	}
	if r != inv {
		return fmt.Sprintf("rejections %s invalid frames", map[bool]string{true: "fewer than", false: "more than"}[r < inv])
	}
	return "handler emissions lost / duplicated / reordered on the way to the client"
}
