package checks

import (
	"context"
	"encoding/json"
	"fmt"
	"math/rand"
	"sort"
	"strings"
	"time"

	"github.com/high-moctane/mocrelay"

	"verif/harness/internal/abs"
	"verif/harness/internal/core"
	"verif/harness/internal/tlcrun"
	"verif/harness/internal/tv"
)

// storeAdapter is the observable interface of the in-memory store, either
// the EventCache itself or a CacheHandler session driven with messages.
type storeAdapter interface {
	Add(e *mocrelay.Event) (added bool, err error)
	Find(fs []*mocrelay.ReqFilter) ([]*mocrelay.Event, error)
	Len() (int, bool)
	Close()
}

type cacheAdapter struct{ c *mocrelay.EventCache }

func (a cacheAdapter) Add(e *mocrelay.Event) (bool, error) { return a.c.Add(e), nil }
func (a cacheAdapter) Find(fs []*mocrelay.ReqFilter) ([]*mocrelay.Event, error) {
	return a.c.Find(fs), nil
}
func (a cacheAdapter) Len() (int, bool) { return a.c.Len(), true }
func (a cacheAdapter) Close()           {}

// handlerAdapter drives a Handler session: EVENT -> OK, REQ -> EVENT* EOSE.
type handlerAdapter struct {
	cancel context.CancelFunc
	send   chan mocrelay.ServerMsg
	recv   chan mocrelay.ClientMsg
	done   chan error
	n      int
}

func newHandlerAdapter(h mocrelay.Handler) *handlerAdapter {
	ctx, cancel := context.WithCancel(context.Background())
	a := &handlerAdapter{cancel: cancel, send: make(chan mocrelay.ServerMsg), recv: make(chan mocrelay.ClientMsg), done: make(chan error, 1)}
	go func() { a.done <- h.ServeNostr(ctx, a.send, a.recv) }()
	return a
}

func (a *handlerAdapter) put(m mocrelay.ClientMsg) error {
	select {
	case a.recv <- m:
		return nil
	case <-time.After(5 * time.Second):
		return fmt.Errorf("handler does not take input")
	}
}

func (a *handlerAdapter) get() (mocrelay.ServerMsg, error) {
	select {
	case m := <-a.send:
		return m, nil
	case <-time.After(5 * time.Second):
		return nil, fmt.Errorf("handler does not reply")
	}
}

func (a *handlerAdapter) Add(e *mocrelay.Event) (bool, error) {
	if err := a.put(&mocrelay.ClientEventMsg{Event: e}); err != nil {
		return false, err
	}
	m, err := a.get()
	if err != nil {
		return false, err
	}
	ok, isOK := m.(*mocrelay.ServerOKMsg)
	if !isOK || ok.EventID != e.ID {
		return false, fmt.Errorf("EVENT answered by %T %+v", m, m)
	}
	return ok.Accepted, nil
}

func (a *handlerAdapter) Find(fs []*mocrelay.ReqFilter) ([]*mocrelay.Event, error) {
	a.n++
	sub := fmt.Sprintf("s%d", a.n)
	if err := a.put(&mocrelay.ClientReqMsg{SubscriptionID: sub, ReqFilters: fs}); err != nil {
		return nil, err
	}
	var out []*mocrelay.Event
	for {
		m, err := a.get()
		if err != nil {
			return nil, err
		}
		switch m := m.(type) {
		case *mocrelay.ServerEventMsg:
			if m.SubscriptionID != sub {
				return nil, fmt.Errorf("EVENT labelled %q inside REQ %q", m.SubscriptionID, sub)
			}
			out = append(out, m.Event)
		case *mocrelay.ServerEOSEMsg:
			if m.SubscriptionID != sub {
				return nil, fmt.Errorf("EOSE labelled %q for REQ %q", m.SubscriptionID, sub)
			}
			return out, nil
		default:
			return nil, fmt.Errorf("REQ answered by %T", m)
		}
	}
}
func (a *handlerAdapter) Len() (int, bool) { return 0, false }
func (a *handlerAdapter) Close() {
	a.cancel()
	select {
	case <-a.done:
	case <-time.After(5 * time.Second):
	}
}

var matchAll = []*mocrelay.ReqFilter{{}}

// ---------------------------------------------------------------------------
// shape of a step, for violation signatures: which classes of events entered
// and left relative to the offered event.

func stepShape(before, after []string, evs map[string]abs.Event, e abs.Event, added bool) string {
	b := map[string]bool{}
	for _, x := range before {
		b[x] = true
	}
	a := map[string]bool{}
	for _, x := range after {
		a[x] = true
	}
	var parts []string
	rel := func(x abs.Event) string {
		switch {
		case x.ID == e.ID:
			return "self"
		case x.Author != e.Author:
			return "foreign-" + cls(x.Kind)
		case cls(x.Kind) == cls(e.Kind) && x.Kind == e.Kind && cls(e.Kind) != "regular":
			return "own-samekind-" + cls(x.Kind)
		default:
			return "own-" + cls(x.Kind)
		}
	}
	for _, x := range after {
		if !b[x] {
			parts = append(parts, "+"+rel(evs[x]))
		}
	}
	for _, x := range before {
		if !a[x] {
			parts = append(parts, "-"+rel(evs[x]))
		}
	}
	sort.Strings(parts)
	kind5 := ""
	if e.Kind == 5 {
		kind5 = "(kind5)"
	}
	return fmt.Sprintf("add %s%s added=%v delta[%s]", cls(e.Kind), kind5, added, strings.Join(parts, " "))
}

// ---------------------------------------------------------------------------
// TLC side: model checking + export of the transition relation

type storeRel struct {
	Universe map[string]abs.Event
	// key: cap|state|action -> outcomes "added|tstate"
	Rel    map[string]map[string]bool
	States int64
	Trans  int64
}

func relKey(cap int, s string, a string) string { return fmt.Sprintf("%d|%s|%s", cap, s, a) }

func runStoreMC(run *core.Run, maxCap int) (*storeRel, bool) {
	rel := &storeRel{Universe: map[string]abs.Event{}, Rel: map[string]map[string]bool{}}
	res, err := tlcrun.Run(tlcrun.Options{
		Module: "StoreMC", Config: "StoreMC_export.cfg", Workers: 1, Timeout: 20 * time.Minute,
		Consts: map[string]string{"MaxCap": fmt.Sprint(maxCap)},
		OnJSON: func(line string) {
			var t struct {
				Universe []abs.Event `json:"universe"`
				Cap      int         `json:"cap"`
				S        []string    `json:"s"`
				A        string      `json:"a"`
				Added    bool        `json:"added"`
				T        []string    `json:"t"`
			}
			if err := json.Unmarshal([]byte(line), &t); err != nil {
				return
			}
			if t.Universe != nil {
				for _, e := range t.Universe {
					rel.Universe[e.ID] = e
				}
				return
			}
			k := relKey(t.Cap, abs.KeyOf(t.S), t.A)
			m := rel.Rel[k]
			if m == nil {
				m = map[string]bool{}
				rel.Rel[k] = m
			}
			m[fmt.Sprintf("%v|%s", t.Added, abs.KeyOf(t.T))] = true
		},
	})
	if err != nil {
		run.Problem("TLC could not run StoreMC: %v", err)
		return nil, false
	}
	if !res.OK {
		if res.PropertyViolated {
			run.Problem("the Store specification itself violates a retention invariant / action property (model error, not a verdict on the code):\n%s", res.Tail)
		} else {
			run.Problem("TLC failed on StoreMC (exit %d, timeout %v):\n%s", res.ExitCode, res.TimedOut, res.Tail)
		}
		return nil, false
	}
	rel.States, rel.Trans = res.Distinct, res.Generated
	if len(rel.Universe) == 0 || len(rel.Rel) == 0 {
		run.Problem("StoreMC exported nothing")
		return nil, false
	}
	return rel, true
}

// graphReplay walks the exported transition relation on the real store: every
// abstract state that the real code reaches is reached by a real history, and
// from it every event of the universe is offered once.
func graphReplay(run *core.Run, rel *storeRel, maxCap int, mk func(cap int) storeAdapter, viaHandler bool) {
	conc := abs.NewConc()
	var labels []string
	for l := range rel.Universe {
		labels = append(labels, l)
	}
	sort.Strings(labels)
	real := map[string]*mocrelay.Event{}
	for _, l := range labels {
		real[l] = conc.Event(rel.Universe[l], "content of "+l)
	}
	covered := core.NewDistinct()
	for cap := 1; cap <= maxCap; cap++ {
		type node struct {
			path []string
		}
		visited := map[string]bool{"": true}
		queue := []node{{}}
		replay := func(path []string) (storeAdapter, []string, error) {
			st := mk(cap)
			var cur []string
			for _, a := range path {
				if _, err := st.Add(real[a]); err != nil {
					return st, nil, err
				}
			}
			evs, err := st.Find(matchAll)
			if err != nil {
				return st, nil, err
			}
			cur = conc.Labels(evs)
			return st, cur, nil
		}
		for len(queue) > 0 {
			n := queue[0]
			queue = queue[1:]
			for _, a := range labels {
				st, before, err := replay(n.path)
				if err != nil {
					st.Close()
					run.Violate("graph:handler-protocol", err.Error(), map[string]any{"cap": cap, "path": n.path})
					continue
				}
				added, err := st.Add(real[a])
				if err != nil {
					st.Close()
					run.Violate("graph:handler-protocol", err.Error(), map[string]any{"cap": cap, "path": n.path, "add": a})
					continue
				}
				evs, err := st.Find(matchAll)
				if err != nil {
					st.Close()
					run.Violate("graph:handler-protocol", err.Error(), map[string]any{"cap": cap, "path": n.path, "add": a})
					continue
				}
				after := conc.Labels(evs)
				ln, hasLen := st.Len()
				st.Close()
				run.Add("replayed_transitions", 1)
				sk := abs.KeyOf(before)
				k := relKey(cap, sk, a)
				covered.Add(k)
				outs := rel.Rel[k]
				got := fmt.Sprintf("%v|%s", added, abs.KeyOf(after))
				ok := outs[got]
				sorted := true
				for i := 0; i+1 < len(evs); i++ {
					if evs[i].CreatedAt < evs[i+1].CreatedAt {
						sorted = false
					}
				}
				if !ok || !sorted || (hasLen && ln != len(after)) {
					var allowed []string
					for o := range outs {
						allowed = append(allowed, o)
					}
					sort.Strings(allowed)
					sig := "graph:" + stepShape(before, after, rel.Universe, rel.Universe[a], added)
					if ok && !sorted {
						sig = "graph:listing-not-sorted"
					} else if ok {
						sig = "graph:len-differs-from-listing"
					}
					run.Violate(sig,
						fmt.Sprintf("cap=%d history=%v state=%v Add(%s)=%v -> listing %v (Len %d); specification allows added|state in %v",
							cap, n.path, before, a, added, after, ln, allowed),
						map[string]any{"cap": cap, "history": n.path, "add": a, "events": rel.Universe, "via_handler": viaHandler})
					continue
				}
				tk := abs.KeyOf(after)
				if !visited[tk] {
					visited[tk] = true
					queue = append(queue, node{path: append(append([]string{}, n.path...), a)})
				}
			}
		}
		run.Add("replayed_states", int64(len(visited)))
	}
	run.Set("relation_pairs_total", int64(len(rel.Rel)))
	run.Set("relation_pairs_replayed", covered.Len())
	// Random walks through the relation: the breadth-first replay reaches every abstract state by its
	// shortest history only, so state the implementation keeps besides the retained set (index entries,
	// deletion marks) is exercised along one path; long random histories over the same universe reach
	// the states by many other paths (through replacement, deletion and eviction), every step judged by
	// the relation.
	walks := 1500
	if run.Thorough() {
		walks = 6000
	}
	r := run.Rand(fmt.Sprint("store-walks", viaHandler))
	related := relatedLabels(labels, rel.Universe)
	for w := 0; w < walks && run.Violations() < 8; w++ {
		cap := 1 + r.Intn(maxCap)
		st := mk(cap)
		var hist []string
		state := []string{}
		// two of three walks stay inside a small theme: a seed event, what is related to it, two fillers
		pool := labels
		if w%3 != 0 {
			pool = themedPool(r, labels, related)
		}
		for step := 0; step < 16; step++ {
			a := pool[r.Intn(len(pool))]
			added, err := st.Add(real[a])
			if err != nil {
				run.Violate("graph:handler-protocol", err.Error(), map[string]any{"cap": cap, "path": hist, "add": a})
				break
			}
			evs, err := st.Find(matchAll)
			if err != nil {
				run.Violate("graph:handler-protocol", err.Error(), map[string]any{"cap": cap, "path": hist, "add": a})
				break
			}
			after := conc.Labels(evs)
			run.Add("walk_steps", 1)
			outs := rel.Rel[relKey(cap, abs.KeyOf(state), a)]
			if outs == nil {
				run.Problem("random walk left the exported relation: cap=%d state=%v add=%s", cap, state, a)
				break
			}
			if !outs[fmt.Sprintf("%v|%s", added, abs.KeyOf(after))] {
				var allowed []string
				for o := range outs {
					allowed = append(allowed, o)
				}
				sort.Strings(allowed)
				run.Violate("walk:"+stepShape(state, after, rel.Universe, rel.Universe[a], added),
					fmt.Sprintf("cap=%d history=%v state=%v Add(%s)=%v -> listing %v; specification allows added|state in %v", cap, hist, state, a, added, after, allowed),
					map[string]any{"cap": cap, "history": hist, "add": a, "events": rel.Universe, "via_handler": viaHandler})
				break
			}
			hist = append(hist, a)
			state = after
		}
		st.Close()
	}
}

// ---------------------------------------------------------------------------
// random histories -> StoreTrace

type histOpts struct {
	traces   int
	steps    int
	maxCap   int
	findProb int // 1/findProb of the steps is followed by finds
	handler  bool
	authors  []string
}

func genStoreTraces(run *core.Run, purpose string, o histOpts, mk func(cap int) storeAdapter) ([]tv.Trace, map[string]abs.Event) {
	r := run.Rand(purpose)
	var traces []tv.Trace
	all := map[string]abs.Event{}
	for t := 0; t < o.traces; t++ {
		conc := abs.NewConc()
		g := NewGen(r, fmt.Sprintf("%s%d_", purpose[:1], t))
		g.Extreme = t%3 == 1
		if o.authors != nil {
			g.Authors = o.authors
		}
		cap := 1 + r.Intn(o.maxCap)
		if r.Intn(8) == 0 {
			cap = 20
		}
		st := mk(cap)
		tr := tv.Trace{Name: fmt.Sprintf("%s-%d", purpose, t)}
		tr.Lines = append(tr.Lines, map[string]any{"op": "reset", "cap": cap})
		steps := o.steps/2 + r.Intn(o.steps)
		var before []string
		for i := 0; i < steps; i++ {
			e := g.Offer()
			all[e.ID] = e
			added, err := st.Add(conc.Event(e, "c"))
			if err != nil {
				run.Violate("trace:handler-protocol", err.Error(), nil)
				break
			}
			evs, err := st.Find(matchAll)
			if err != nil {
				run.Violate("trace:handler-protocol", err.Error(), nil)
				break
			}
			list := conc.Labels(evs)
			tr.Lines = append(tr.Lines, map[string]any{"op": "add", "e": e, "added": added, "list": list,
				"shape": stepShape(before, list, all, e, added)})
			before = list
			if n, ok := st.Len(); ok && r.Intn(4) == 0 {
				tr.Lines = append(tr.Lines, map[string]any{"op": "len", "n": n})
			}
			if o.findProb > 0 && r.Intn(o.findProb) == 0 {
				fs := g.Filters()
				res, err := st.Find(conc.Filters(fs))
				if err != nil {
					run.Violate("trace:handler-protocol", err.Error(), nil)
					break
				}
				tr.Lines = append(tr.Lines, map[string]any{"op": "find", "fs": abs.NormFilters(fs), "res": conc.Labels(res),
					"shape": "find " + describeFilters(fs)})
			}
		}
		st.Close()
		traces = append(traces, tr)
	}
	return traces, all
}

func lineShape(line any) string {
	if m, ok := line.(map[string]any); ok {
		if s, ok := m["shape"].(string); ok {
			return s
		}
		if s, ok := m["op"].(string); ok {
			return s
		}
	}
	return "?"
}

var storeTraceSpec = tv.Spec{Module: "StoreTrace", Config: "StoreTrace.cfg", Timeout: 30 * time.Minute}

func validateStoreTraces(run *core.Run, traces []tv.Trace) {
	out, err := tv.Validate(storeTraceSpec, nil, traces, 6)
	if out != nil {
		run.Add("traces_validated_against_impl", int64(out.Accepted+len(out.Rejects)))
		run.Add("trace_lines", int64(out.Lines))
		run.Add("trace_tlc_states", out.TLCStates)
	}
	if err != nil {
		run.Problem("trace validation failed to run: %v", err)
		return
	}
	for _, rj := range out.Rejects {
		b, _ := json.Marshal(rj.Line)
		run.Violate("trace:"+lineShape(rj.Line),
			fmt.Sprintf("trace %s line %d is not a step of Store: %s", rj.Trace.Name, rj.LineIdx, b),
			map[string]any{"trace": rj.Trace.Lines[:rj.LineIdx+1]})
	}
	if len(traces) > 0 && len(traces[0].Lines) > 3 {
		run.Sample(map[string]any{"trace_prefix": traces[0].Lines[:4]})
	}
}

// storeCanary corrupts one recorded trace (flips an added flag, drops an
// event from a listing) and requires the trace spec to reject it.
func storeCanary(run *core.Run, traces []tv.Trace) {
	if len(traces) == 0 {
		return
	}
	src := traces[0]
	for variant := 0; variant < 2; variant++ {
		var lines []any
		done := false
		for _, l := range src.Lines {
			m, _ := l.(map[string]any)
			if !done && m != nil && m["op"] == "add" {
				c := map[string]any{}
				for k, v := range m {
					c[k] = v
				}
				if variant == 0 {
					c["added"] = !(m["added"].(bool))
					done = true
				} else if lst, ok := m["list"].([]string); ok && len(lst) > 0 {
					c["list"] = lst[1:]
					done = true
				}
				lines = append(lines, c)
				continue
			}
			lines = append(lines, l)
		}
		if !done {
			continue
		}
		rej, err := tv.Rejects(storeTraceSpec, nil, tv.Trace{Name: "canary", Lines: lines})
		if err != nil {
			run.Problem("canary run failed: %v", err)
			return
		}
		if !rej {
			run.Problem("canary trace (variant %d) was accepted by StoreTrace: the binding is vacuous", variant)
			return
		}
		run.Add("canaries_rejected", 1)
	}
}

func newCache(cap int) storeAdapter { return cacheAdapter{mocrelay.NewEventCache(cap)} }
func newCacheHandler(cap int) storeAdapter {
	return newHandlerAdapter(mocrelay.NewCacheHandler(cap))
}

// C04: retention.
func C04(run *core.Run) {
	maxCap := 3
	if run.Thorough() {
		maxCap = 4
	}
	rel, ok := runStoreMC(run, maxCap)
	if ok {
		run.Set("states", rel.States)
		run.Set("transitions", rel.Trans)
		graphReplay(run, rel, maxCap, newCache, false)
	}
	o := histOpts{traces: 60, steps: 60, maxCap: 6}
	if run.Thorough() {
		o = histOpts{traces: 600, steps: 120, maxCap: 8}
	}
	traces, _ := genStoreTraces(run, "retention", o, newCache)
	validateStoreTraces(run, traces)
	storeCanary(run, traces)
	run.Set("rule", "TLC enumerates every reachable retained set of StoreMC (30-event universe hitting every retention rule, capacities 1..MaxCap) and every Add from it; the harness reaches each abstract state by a real history and offers every event (graph-guided replay), then validates seeded random histories (3 authors, all classes, re-offers, deletion requests) step by step against StoreTrace. distinct_nontrivial = distinct (capacity, state, event) pairs replayed on the real EventCache")
	run.Set("evaluations", run.Get("replayed_transitions")+run.Get("trace_lines"))
	run.Set("distinct_nontrivial", run.Get("relation_pairs_replayed"))
	run.Set("exhaustive", ok)
	run.Assume = append(run.Assume,
		"event ids are unique per event (SHA-256 preimage resistance); self-referencing deletion requests are not generated",
		"created_at ties between versions of one address, and the eviction victim among equally old events, are left open",
		"d-less addressable events are only compared with events of other authors / kinds")
}

// C05: deletion requests and author isolation; same specification, driven
// additionally through CacheHandler messages and deletion-heavy histories.
func C05(run *core.Run) {
	maxCap := 2
	if run.Thorough() {
		maxCap = 3
	}
	rel, ok := runStoreMC(run, maxCap)
	if ok {
		run.Set("states", rel.States)
		run.Set("transitions", rel.Trans)
		graphReplay(run, rel, maxCap, newCacheHandler, true)
	}
	o := histOpts{traces: 40, steps: 50, maxCap: 5, authors: []string{"a", "b"}}
	if run.Thorough() {
		o = histOpts{traces: 400, steps: 100, maxCap: 8, authors: []string{"a", "b"}}
	}
	traces, _ := genStoreTraces(run, "deletion", o, newCacheHandler)
	o2 := o
	o2.authors = nil
	traces2, _ := genStoreTraces(run, "isolation", o2, newCache)
	traces = append(traces, traces2...)
	validateStoreTraces(run, traces)
	storeCanary(run, traces)
	run.Set("rule", "same Store specification as C04; the graph-guided replay is driven as EVENT / REQ messages through NewCacheHandler(cap).ServeNostr, and the random histories use two authors (every deletion request has a 1/4 chance to name a foreign target) plus three-author direct histories. distinct_nontrivial = distinct (capacity, state, event) pairs replayed through the handler")
	run.Set("evaluations", run.Get("replayed_transitions")+run.Get("trace_lines"))
	run.Set("distinct_nontrivial", run.Get("relation_pairs_replayed"))
	run.Set("exhaustive", ok)
	run.Assume = append(run.Assume,
		"address references are exercised on addressable events only (kind:pubkey:d), as the property states",
		"self-referencing deletion requests cannot exist with authentic ids and are not generated")
}

// relatedLabels: events that have to do with each other: one names the other in an e / a tag, or
// both have the same author and kind (versions of an address, requests of one author).
func relatedLabels(labels []string, universe map[string]abs.Event) map[string][]string {
	addrOf := func(e abs.Event) string {
		d := ""
		for _, t := range e.Tags {
			if t.Name == "d" {
				d = t.Val
				break
			}
		}
		return fmt.Sprintf("%d:%s:%s", e.Kind, e.Author, d)
	}
	related := map[string][]string{}
	for _, x := range labels {
		for _, y := range labels {
			if x == y {
				continue
			}
			ex, ey := universe[x], universe[y]
			rl := ex.Author == ey.Author && ex.Kind == ey.Kind
			for _, t := range ex.Tags {
				if (t.Name == "e" && t.Val == y) || (t.Name == "a" && t.Val == addrOf(ey)) {
					rl = true
				}
			}
			if rl {
				related[x] = append(related[x], y)
				related[y] = append(related[y], x)
			}
		}
	}
	return related
}

// themedPool: a seed event, what is related to it (two levels, at most nine), two fillers.
func themedPool(r *rand.Rand, labels []string, related map[string][]string) []string {
	seed := labels[r.Intn(len(labels))]
	pool := append([]string{seed}, related[seed]...)
	for _, y := range related[seed] {
		pool = append(pool, related[y]...)
	}
	if len(pool) > 9 {
		r.Shuffle(len(pool)-1, func(i, j int) { pool[i+1], pool[j+1] = pool[j+1], pool[i+1] })
		pool = pool[:9]
	}
	return append(pool, labels[r.Intn(len(labels))], labels[r.Intn(len(labels))])
}
