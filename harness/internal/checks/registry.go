package checks

import "verif/harness/internal/core"

// Registry maps property ids to their checks.
var Registry = map[string]func(*core.Run){
	"C01": C01,
	"C02": C02,
	"C03": C03,
	"C06": C06,
	"C07": C07,
	"C08": C08,
	"C09": C09,
	"C10": C10,
	"C11": C11,
	"C12": C12,
	"C13": C13,
	"C14": C14,
	"C15": C15,
	"C16": C16,
	"C17": C17,
	"C18": C18,
	"C19": C19,
	"C20": C20,
	"E2E": E2E,
	"PIPE": PIPE,
	"C04": C04,
	"C05": C05,
}
