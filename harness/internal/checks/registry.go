package checks

import "verif/harness/internal/core"

// Registry maps property ids to their checks.
var Registry = map[string]func(*core.Run){
	"C03": C03,
	"C04": C04,
	"C05": C05,
}
