package checks

import (
	"context"
	"encoding/json"
	"fmt"
	"io"
	"log/slog"
	"sync"
	"time"

	"github.com/high-moctane/mocrelay"
	mocprom "github.com/high-moctane/mocrelay/middleware/prometheus"
	"github.com/prometheus/client_golang/prometheus"

	"verif/harness/internal/abs"
	"verif/harness/internal/core"
	"verif/harness/internal/tlcrun"
	"verif/harness/internal/tv"
)

var pipeTraceSpec = tv.Spec{Module: "PipeTrace", Config: "PipeTrace.cfg"}

// pipeRec: one total order of the four kinds of observation (Pipe.tla).
// csend / demit are stamped before the channel operation, drecv / cgot after it.
type pipeRec struct {
	mu    sync.Mutex
	lines []any
	n     map[string]int
}

func (p *pipeRec) add(op string, m any) {
	b, _ := json.Marshal(m)
	p.mu.Lock()
	p.lines = append(p.lines, map[string]any{"op": op, "m": string(b), "shape": op})
	p.n[op]++
	p.mu.Unlock()
}
func (p *pipeRec) count(op string) int { p.mu.Lock(); defer p.mu.Unlock(); return p.n[op] }

// pipeHandler: the wrapped handler. It records what it receives and emits what the driver hands it.
type pipeHandler struct {
	rec  *pipeRec
	emit chan mocrelay.ServerMsg
}

func (h *pipeHandler) ServeNostr(ctx context.Context, send chan<- mocrelay.ServerMsg, recv <-chan mocrelay.ClientMsg) error {
	for {
		select {
		case <-ctx.Done():
			return ctx.Err()
		case m, ok := <-recv:
			if !ok {
				return nil
			}
			h.rec.add("drecv", m)
		case o := <-h.emit:
			h.rec.add("demit", o)
			select {
			case send <- o:
			case <-ctx.Done():
				return ctx.Err()
			}
		}
	}
}

// PIPE: stacks of middlewares that ought to be transparent, both directions driven concurrently.
func PIPE(run *core.Run) {
	if res, err := tlcrun.Run(tlcrun.Options{Module: "PipeMC", Config: "PipeMC.cfg", Workers: 4, Timeout: 5 * time.Minute}); err != nil || !res.OK {
		tail := ""
		if res != nil {
			tail = res.Tail
		}
		run.Problem("TLC failed on PipeMC: %v\n%s", err, tail)
	} else {
		run.Add("states", res.Distinct)
		run.Add("transitions", res.Generated)
	}
	conc := abs.NewConc()
	r := run.Rand("pipe")
	nt := 40
	if run.Thorough() {
		nt = 1200
	}
	discard := func() *slog.Logger { return slog.New(slog.NewTextHandler(io.Discard, nil)) }
	jsonLog := func() *slog.Logger {
		return slog.New(slog.NewJSONHandler(io.Discard, &slog.HandlerOptions{Level: slog.LevelDebug, AddSource: true}))
	}
	stacks := []struct {
		name string
		mk   func() []mocrelay.Middleware
	}{
		{"logging", func() []mocrelay.Middleware { return []mocrelay.Middleware{mocrelay.Middleware(mocrelay.NewLoggingMiddleware(discard()))} }},
		{"logging(json,source)", func() []mocrelay.Middleware { return []mocrelay.Middleware{mocrelay.Middleware(mocrelay.NewLoggingMiddleware(jsonLog()))} }},
		{"logging.logging", func() []mocrelay.Middleware {
			return []mocrelay.Middleware{mocrelay.Middleware(mocrelay.NewLoggingMiddleware(discard())), mocrelay.Middleware(mocrelay.NewLoggingMiddleware(jsonLog()))}
		}},
		{"logging.prometheus", func() []mocrelay.Middleware {
			return []mocrelay.Middleware{mocrelay.Middleware(mocrelay.NewLoggingMiddleware(discard())), mocrelay.Middleware(mocprom.NewPrometheusMiddleware(prometheus.NewRegistry()))}
		}},
		{"prometheus.logging", func() []mocrelay.Middleware {
			return []mocrelay.Middleware{mocrelay.Middleware(mocprom.NewPrometheusMiddleware(prometheus.NewRegistry())), mocrelay.Middleware(mocrelay.NewLoggingMiddleware(discard()))}
		}},
		{"generous limits", func() []mocrelay.Middleware {
			return []mocrelay.Middleware{
				mocrelay.Middleware(mocrelay.NewMaxSubscriptionsMiddleware(1000)),
				mocrelay.Middleware(mocrelay.NewMaxReqFiltersMiddleware(1000)),
				mocrelay.Middleware(mocrelay.NewMaxSubIDLengthMiddleware(1000)),
				mocrelay.Middleware(mocrelay.NewMaxEventTagsMiddleware(1000)),
				mocrelay.Middleware(mocrelay.NewMaxContentLengthMiddleware(100000)),
				mocrelay.Middleware(mocrelay.NewLoggingMiddleware(discard())),
			}
		}},
	}
	distinct := core.NewDistinct()
	var traces []tv.Trace
	subs := []string{"a", "b", "", "sub with space", "日本"}
	for t := 0; t < nt; t++ {
		st := stacks[t%len(stacks)]
		rec := &pipeRec{n: map[string]int{}}
		rec.lines = append(rec.lines, map[string]any{"op": "reset", "shape": "reset " + st.name})
		down := &pipeHandler{rec: rec, emit: make(chan mocrelay.ServerMsg)}
		var h mocrelay.Handler = down
		mws := st.mk()
		for i := len(mws) - 1; i >= 0; i-- {
			h = mws[i](h)
		}
		ctx, cancel := context.WithCancel(context.Background())
		send := make(chan mocrelay.ServerMsg)
		recv := make(chan mocrelay.ClientMsg)
		done := make(chan error, 1)
		go func() { done <- h.ServeNostr(ctx, send, recv) }()
		// the client's reading end
		readerDone := make(chan struct{})
		go func() {
			defer close(readerDone)
			for {
				select {
				case o := <-send:
					rec.add("cgot", o)
				case <-ctx.Done():
					return
				}
			}
		}()
		ev := func(k int) *mocrelay.Event {
			return conc.Event(abs.Event{ID: fmt.Sprintf("pp%d_%d", t, k), Author: []string{"a", "b"}[k%2], Kind: []int64{1, 0, 5, 30000, 20001}[k%5], TS: int64(1 + k%7)}, []string{"", "m", "<&> "}[k%3])
		}
		cmsg := func(rr func(int) int, k int) mocrelay.ClientMsg {
			fs := []*mocrelay.ReqFilter{{}}
			if rr(3) == 0 {
				lim := int64(rr(5))
				fs = append(fs, &mocrelay.ReqFilter{Limit: &lim, Kinds: []int64{1, 5}})
			}
			switch rr(7) {
			case 0, 1:
				return &mocrelay.ClientReqMsg{SubscriptionID: subs[rr(len(subs))], ReqFilters: fs}
			case 2:
				return &mocrelay.ClientCloseMsg{SubscriptionID: subs[rr(len(subs))]}
			case 3, 4:
				return &mocrelay.ClientEventMsg{Event: ev(k)}
			case 5:
				return &mocrelay.ClientCountMsg{SubscriptionID: subs[rr(len(subs))], ReqFilters: fs}
			default:
				return &mocrelay.ClientAuthMsg{Event: conc.Event(abs.Event{ID: fmt.Sprintf("pa%d_%d", t, k), Author: "a", Kind: 22242, TS: 1}, "")}
			}
		}
		smsg := func(rr func(int) int, k int) mocrelay.ServerMsg {
			switch rr(8) {
			case 0, 1:
				return mocrelay.NewServerEventMsg(subs[rr(len(subs))], ev(1000+k))
			case 2:
				return mocrelay.NewServerEOSEMsg(subs[rr(len(subs))])
			case 3:
				return mocrelay.NewServerOKMsg(ev(k).ID, rr(2) == 0, "", []string{"", "duplicate: x", "blocked"}[rr(3)])
			case 4:
				return mocrelay.NewServerClosedMsg(subs[rr(len(subs))], "", "bye")
			case 5:
				return mocrelay.NewServerNoticeMsg(fmt.Sprintf("notice %d", k))
			case 6:
				return &mocrelay.ServerAuthMsg{Challenge: "challenge"}
			default:
				return mocrelay.NewServerCountMsg(subs[rr(len(subs))], uint64(rr(100)), nil)
			}
		}
		ok := true
		rounds := 1 + r.Intn(3)
		for q := 0; q < rounds && ok; q++ {
			nc, ns := r.Intn(12), r.Intn(12)
			var wg sync.WaitGroup
			var stuck [2]bool
			rc := run.Rand(fmt.Sprint("pipe-c", t, q))
			rs := run.Rand(fmt.Sprint("pipe-s", t, q))
			wg.Add(2)
			go func() {
				defer wg.Done()
				for k := 0; k < nc; k++ {
					m := cmsg(rc.Intn, q*100+k)
					rec.add("csend", m)
					select {
					case recv <- m:
					case <-time.After(10 * time.Second):
						stuck[0] = true
						return
					}
				}
			}()
			go func() {
				defer wg.Done()
				for k := 0; k < ns; k++ {
					m := smsg(rs.Intn, q*100+k)
					select {
					case down.emit <- m:
					case <-time.After(10 * time.Second):
						stuck[1] = true
						return
					}
				}
			}()
			wg.Wait()
			if stuck[0] || stuck[1] {
				run.Violate("pipe:"+st.name+":stuck", fmt.Sprintf("trace %d: the stack took no input for 10 s (client side stuck %v, handler side stuck %v)", t, stuck[0], stuck[1]), map[string]any{"trace": rec.lines})
				ok = false
				break
			}
			// quiet point: wait until both directions have drained, then idle a little longer so that an extra message would show
			deadline := time.Now().Add(10 * time.Second)
			for time.Now().Before(deadline) && (rec.count("drecv") < rec.count("csend") || rec.count("cgot") < rec.count("demit")) {
				time.Sleep(200 * time.Microsecond)
			}
			time.Sleep(2 * time.Millisecond)
			rec.mu.Lock()
			rec.lines = append(rec.lines, map[string]any{"op": "quiet", "shape": "quiet " + st.name})
			rec.mu.Unlock()
			run.Add("quiet_points", 1)
		}
		cancel()
		select {
		case <-done:
		case <-time.After(5 * time.Second):
			run.Violate("pipe:"+st.name+":no return", fmt.Sprintf("trace %d: ServeNostr still running 5 s after cancellation", t), nil)
		}
		<-readerDone
		rec.mu.Lock()
		tr := tv.Trace{Name: fmt.Sprintf("pipe-%d-%s", t, st.name), Lines: rec.lines}
		rec.mu.Unlock()
		run.Add("observations", int64(len(tr.Lines)))
		distinct.Add(tr.Name)
		traces = append(traces, tr)
	}
	out, err := tv.ValidateChunks(pipeTraceSpec, nil, traces, 6, 100, 8)
	if out != nil {
		run.Add("traces_validated_against_impl", int64(out.Accepted+len(out.Rejects)))
		run.Add("trace_lines", int64(out.Lines))
	}
	if err != nil {
		run.Problem("PipeTrace validation failed to run: %v", err)
	} else {
		for _, rj := range out.Rejects {
			b, _ := json.Marshal(rj.Line)
			run.Violate("pipe:"+lineShape(rj.Line), fmt.Sprintf("%s line %d: no behaviour of a transparent stack explains %s", rj.Trace.Name, rj.LineIdx, b),
				map[string]any{"trace": rj.Trace.Lines[:rj.LineIdx+1]})
		}
		// canaries: a message altered on its way / a message lost before a quiet point
		for _, mode := range []string{"altered", "lost"} {
			c := tv.Trace{Name: "canary-" + mode}
			hit := false
			for _, tr := range traces {
				c.Lines = nil
				for _, l := range tr.Lines {
					m := l.(map[string]any)
					if !hit && m["op"] == "cgot" {
						hit = true
						if mode == "lost" {
							continue
						}
						cp := map[string]any{}
						for k, v := range m {
							cp[k] = v
						}
						cp["m"] = m["m"].(string) + " "
						c.Lines = append(c.Lines, cp)
						continue
					}
					c.Lines = append(c.Lines, l)
				}
				if hit {
					break
				}
			}
			if !hit {
				run.Problem("no server message in any trace: the scenarios are vacuous")
				break
			}
			if rej, err := tv.Rejects(pipeTraceSpec, nil, c); err != nil {
				run.Problem("canary failed to run: %v", err)
			} else if !rej {
				run.Problem("canary (%s server message) accepted by PipeTrace", mode)
			} else {
				run.Add("canaries_rejected", 1)
			}
		}
		run.Sample(map[string]any{"trace": traces[0].Name, "lines": traces[0].Lines[:min(8, len(traces[0].Lines))]})
	}
	run.Set("rule", "beyond the listed properties: Pipe.tla is a pair of FIFO channels (model-checked with history variables: received is a prefix of sent in each direction, equal at every quiet point, drains); stacks that ought to be transparent - NewLoggingMiddleware with a text and a JSON(AddSource, debug) logger, two of them, with the Prometheus middleware on either side, and five limit middlewares with generous limits - wrap a recording handler; client messages of all five types and server messages of all seven types are driven through both directions concurrently, every observation is stamped in one total order (before the send / after the receive), quiet points are marked after both ends drained; TLC validates each trace against PipeTrace. distinct_nontrivial = distinct traces")
	run.Set("evaluations", run.Get("observations"))
	run.Set("distinct_nontrivial", distinct.Len())
	run.Assume = append(run.Assume, "a quiet point is declared 2 ms after both directions have drained; a message that a stack would invent later than that is seen at the next quiet point or not at all")
}
