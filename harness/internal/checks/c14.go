package checks

import (
	"context"
	"encoding/json"
	"fmt"
	"os"
	"path/filepath"
	"sort"
	"strings"
	"time"

	"github.com/high-moctane/mocrelay"
	mocsqlite "github.com/high-moctane/mocrelay/handler/sqlite"

	"verif/harness/internal/abs"
	"verif/harness/internal/core"
	"verif/harness/internal/faultsql"
	"verif/harness/internal/tlcrun"
	"verif/harness/internal/tv"
)

type txCase struct {
	Batch  []string   `json:"batch"`
	FailAt int        `json:"failAt"`
	Stmts  int        `json:"stmts"`
	Pre    []string   `json:"pre"`
	Post   []string   `json:"post"`
	Hist   [][]string `json:"hist"`
}

func (c txCase) key() string {
	return fmt.Sprint(c.Hist, c.Batch, c.FailAt)
}

// the SqlTx universe, kept in step with spec/SqlTx.tla by the export of SqlMC-like
// records would be nicer; the events are few, so they are rebuilt from their
// ids through this table and cross-checked against the exported live sets.
var txUniverse = map[string]abs.Event{
	"r1": {ID: "r1", Author: "a", Kind: 1, TS: 1, Tags: []abs.Tag{{Name: "t", Val: "x", N: 2}, {Name: "t", Val: "x", N: 2}, {Name: "title", Val: "x", N: 2}}},
	"x1": {ID: "x1", Author: "a", Kind: 30000, TS: 1, Tags: []abs.Tag{{Name: "d", Val: "x", N: 2}}},
	"x2": {ID: "x2", Author: "a", Kind: 30000, TS: 2, Tags: []abs.Tag{{Name: "d", Val: "x", N: 2}, {Name: "t", Val: "y", N: 2}}},
	"g1": {ID: "g1", Author: "a", Kind: 20000, TS: 5},
	"k1": {ID: "k1", Author: "a", Kind: 5, TS: 3, Tags: []abs.Tag{{Name: "e", Val: "r1", N: 2}, {Name: "a", Val: "30000:a:x", N: 3}}},
	"k3": {ID: "k3", Author: "b", Kind: 5, TS: 4, Tags: []abs.Tag{{Name: "e", Val: "r1", N: 2}}},
	// follow-ups inserted after a reopen
	"x9": {ID: "x9", Author: "a", Kind: 30000, TS: 9, Tags: []abs.Tag{{Name: "d", Val: "x", N: 2}}},
	"k9": {ID: "k9", Author: "a", Kind: 5, TS: 9, Tags: []abs.Tag{{Name: "e", Val: "r1", N: 2}, {Name: "e", Val: "x9", N: 2}}},
	"r9": {ID: "r9", Author: "b", Kind: 1, TS: 8, Tags: []abs.Tag{{Name: "p", Val: "a", N: 2}}},
}

type txDB struct {
	st   *sqlStore
	inj  *faultsql.Injector
	dsn  string
	file bool
}

func openTxDB(dsn string, file bool) (*txDB, error) {
	inj := &faultsql.Injector{}
	db := faultsql.Open(dsn, inj)
	ctx := context.Background()
	if err := mocsqlite.Migrate(ctx, db); err != nil {
		db.Close()
		return nil, err
	}
	seed, err := mocsqlite.VerifSetOrLoadXXHashSeed(ctx, db)
	if err != nil {
		db.Close()
		return nil, err
	}
	return &txDB{st: &sqlStore{db: db, seed: seed}, inj: inj, dsn: dsn, file: file}, nil
}

// C14: atomic + idempotent batches, data and semantics survive reopen.
func C14(run *core.Run) {
	maxBatch := 2
	var cases []txCase
	seen := map[string]bool{}
	res, err := tlcrun.Run(tlcrun.Options{
		Module: "SqlTx", Config: "SqlTx.cfg", Workers: 8, Timeout: 30 * time.Minute,
		Consts: map[string]string{"MaxBatch": fmt.Sprint(maxBatch)},
		OnJSON: func(line string) {
			var c txCase
			if err := json.Unmarshal([]byte(line), &c); err != nil {
				run.Problem("bad export line: %v", err)
				return
			}
			if c.FailAt > c.Stmts { // the fault never fires: same as no fault
				c.FailAt = 0
			}
			if !seen[c.key()] {
				seen[c.key()] = true
				cases = append(cases, c)
			}
		},
	})
	if err != nil || !res.OK {
		tail := ""
		if res != nil {
			tail = res.Tail
		}
		run.Problem("TLC failed on SqlTx: %v\n%s", err, tail)
		return
	}
	run.Set("states", res.Distinct)
	run.Set("transitions", res.Generated)
	sort.Slice(cases, func(i, j int) bool { return cases[i].key() < cases[j].key() })
	run.Set("spec_cases", int64(len(cases)))

	r := run.Rand("c14")
	nMem, nFile := 500, 60
	if run.Thorough() {
		nMem, nFile = len(cases), 600
	}
	dir, err := os.MkdirTemp("", "verif-c14-")
	if err != nil {
		run.Problem("tmp dir: %v", err)
		return
	}
	defer os.RemoveAll(dir)

	conc := abs.NewConc()
	real := map[string]*mocrelay.Event{}
	inserted := map[string]*mocrelay.Event{}
	for id, e := range txUniverse {
		real[id] = conc.Event(e, randContent(r))
		inserted[real[id].ID] = real[id]
	}
	distinct := core.NewDistinct()
	var traces []tv.Trace
	drift := 0

	mem, err := openTxDB(fmt.Sprintf("file:verifc14_%d?mode=memory&cache=shared", time.Now().UnixNano()), false)
	if err != nil {
		run.Problem("open: %v", err)
		return
	}
	defer func() { mem.st.Close() }()

	lastCount := 0 // statements the last armed batch really executed
	runCase := func(c txCase, db *txDB, idx int) (*txDB, bool) {
		tr := tv.Trace{Name: fmt.Sprintf("case hist=%v batch=%v failAt=%d file=%v", c.Hist, c.Batch, c.FailAt, db.file)}
		tr.Lines = append(tr.Lines, map[string]any{"op": "reset"})
		shape := func(s string) string { return s }
		list := func(what string) ([]string, bool) {
			got, err := db.st.Query(matchAll)
			if err != nil {
				run.Violate("query-error after "+what, err.Error(), map[string]any{"case": c})
				return nil, false
			}
			checkFields(run, "c14", inserted, got)
			l := conc.Labels(got)
			tr.Lines = append(tr.Lines, map[string]any{"op": "list", "res": l, "shape": shape("list after " + what)})
			// one probe query besides the listing
			fs := []abs.Filter{{Authors: abs.StrSet{P: true, S: []string{"a"}}, Limit: abs.OptInt{P: true, V: 2}}, {Kinds: abs.IntSet{P: true, S: []int64{5}}}}
			qr, err := db.st.Query(conc.Filters(fs))
			if err != nil {
				run.Violate("query-error after "+what, err.Error(), map[string]any{"case": c})
				return nil, false
			}
			tr.Lines = append(tr.Lines, map[string]any{"op": "find", "fs": abs.NormFilters(fs), "res": conc.Labels(qr), "shape": shape("find after " + what)})
			return l, true
		}
		batchOf := func(ids []string) []*mocrelay.Event {
			var b []*mocrelay.Event
			for _, id := range ids {
				b = append(b, real[id])
			}
			return b
		}
		logBatch := func(ids []string) {
			tr.Lines = append(tr.Lines, map[string]any{"op": "begin"})
			for _, id := range ids {
				tr.Lines = append(tr.Lines, map[string]any{"op": "ins", "e": txUniverse[id]})
			}
		}
		if err := db.st.Reset(); err != nil {
			run.Problem("reset: %v", err)
			return db, false
		}
		for _, h := range c.Hist {
			logBatch(h)
			if err := db.st.Insert(batchOf(h)); err != nil {
				run.Violate("insert-error without fault", err.Error(), map[string]any{"case": c})
				return db, false
			}
			tr.Lines = append(tr.Lines, map[string]any{"op": "commit"})
		}
		pre, ok := list("history")
		if !ok {
			return db, false
		}
		if abs.KeyOf(pre) != abs.KeyOf(c.Pre) {
			run.Violate("c14:pre-state differs from SqlTx", fmt.Sprintf("history %v lists %v, SqlTx says %v", c.Hist, pre, c.Pre), map[string]any{"case": c})
			return db, false
		}
		// the batch under a fault at statement failAt
		logBatch(c.Batch)
		db.inj.Arm(c.FailAt)
		ierr := db.st.Insert(batchOf(c.Batch))
		count, log := db.inj.Disarm()
		fired := db.inj.Fired
		lastCount = count
		run.Add("fault_runs", 1)
		distinct.Add(fmt.Sprintf("%v|%s", c.Batch, strings.Join(log, ",")) + fmt.Sprint(fired))
		if c.FailAt > 0 && !fired || c.FailAt == 0 && count != c.Stmts {
			drift++ // the real statement sequence differs from the model's: noted, no verdict
			if drift <= 3 {
				run.Sample(map[string]any{"model_drift": c, "real_statements": log})
			}
		}
		if fired {
			if ierr == nil {
				run.Violate("c14:fault swallowed (insertEvents returned nil) at "+log[len(log)-1], fmt.Sprintf("case %+v log %v", c, log), map[string]any{"case": c, "log": log})
			}
			tr.Lines = append(tr.Lines, map[string]any{"op": "rollback", "shape": "failed batch at statement " + log[len(log)-1]})
			post, ok := list("failed batch at " + log[len(log)-1])
			if !ok {
				return db, false
			}
			if abs.KeyOf(post) != abs.KeyOf(pre) {
				// also caught by TLC on the trace; reported here with the statement kind
				run.Violate("c14:failed batch changed the listing, fault at "+log[len(log)-1],
					fmt.Sprintf("history %v, batch %v failed at statement %d (%v): listing before %v, after %v", c.Hist, c.Batch, c.FailAt, log, pre, post),
					map[string]any{"case": c, "log": log})
				return db, false
			}
			// retry without fault
			logBatch(c.Batch)
			if err := db.st.Insert(batchOf(c.Batch)); err != nil {
				run.Violate("insert-error on retry", err.Error(), map[string]any{"case": c})
				return db, false
			}
			tr.Lines = append(tr.Lines, map[string]any{"op": "commit"})
			if _, ok := list("retry after failure"); !ok {
				return db, false
			}
		} else {
			if ierr != nil {
				run.Violate("insert-error without fault", ierr.Error(), map[string]any{"case": c})
				return db, false
			}
			tr.Lines = append(tr.Lines, map[string]any{"op": "commit"})
			post, ok := list("batch")
			if !ok {
				return db, false
			}
			// (a fault index beyond the real statement sequence never fires: the batch simply succeeds,
			// c.Post describes the failed batch and does not apply; the trace line is still judged by TLC)
			if c.FailAt == 0 && abs.KeyOf(post) != abs.KeyOf(c.Post) {
				run.Violate("c14:post-state differs from SqlTx", fmt.Sprintf("history %v batch %v lists %v, SqlTx says %v", c.Hist, c.Batch, post, c.Post), map[string]any{"case": c})
				return db, false
			}
		}
		// the same batch again: nothing changes
		logBatch(c.Batch)
		if err := db.st.Insert(batchOf(c.Batch)); err != nil {
			run.Violate("insert-error on re-insertion", err.Error(), map[string]any{"case": c})
			return db, false
		}
		tr.Lines = append(tr.Lines, map[string]any{"op": "same", "shape": "re-insertion of the same batch"})
		if _, ok := list("re-insertion"); !ok {
			return db, false
		}
		if db.file {
			// close + reopen, then replacement and deletion across the restart
			db.st.Close()
			ndb, err := openTxDB(db.dsn, true)
			if err != nil {
				run.Violate("c14:reopen failed", err.Error(), map[string]any{"case": c})
				return db, false
			}
			db = ndb
			tr.Lines = append(tr.Lines, map[string]any{"op": "reopen"})
			if _, ok := list("reopen"); !ok {
				return db, false
			}
			for _, follow := range [][]string{{"x9", "r9"}, {"k9"}} {
				logBatch(follow)
				if err := db.st.Insert(batchOf(follow)); err != nil {
					run.Violate("insert-error after reopen", err.Error(), map[string]any{"case": c})
					return db, false
				}
				tr.Lines = append(tr.Lines, map[string]any{"op": "commit"})
				if _, ok := list("insert after reopen " + fmt.Sprint(follow)); !ok {
					return db, false
				}
			}
			run.Add("reopen_runs", 1)
		}
		traces = append(traces, tr)
		return db, true
	}

	pick := r.Perm(len(cases))
	if nMem > len(cases) {
		nMem = len(cases)
	}
	for i := 0; i < nMem; i++ {
		mem, _ = runCase(cases[pick[i]], mem, i)
	}
	// When the real statement sequence is not the model's (a refactored insert path), the model's fault
	// indices do not cover it: enumerate a fault at every statement the batch really executes.
	if drift > 0 {
		seen := map[string]bool{}
		n := 0
		for _, c := range cases {
			k := fmt.Sprint(c.Hist, c.Batch)
			if c.FailAt != 0 || seen[k] || n >= 16 {
				continue
			}
			seen[k] = true
			n++
			var ok bool
			if mem, ok = runCase(c, mem, 100000+n); !ok {
				continue
			}
			realStmts := lastCount
			for f := 1; f <= realStmts; f++ {
				mem, _ = runCase(txCase{Batch: c.Batch, FailAt: f, Stmts: realStmts, Pre: c.Pre, Post: c.Pre, Hist: c.Hist}, mem, 100000+n*100+f)
				run.Add("adaptive_fault_runs", 1)
			}
		}
	}
	fdb, err := openTxDB("file:"+filepath.Join(dir, "c14.sqlite"), true)
	if err != nil {
		run.Problem("open file db: %v", err)
	} else {
		// prefer cases with a history and a fault
		n := 0
		for i := len(pick) - 1; i >= 0 && n < nFile; i-- {
			c := cases[pick[i]]
			if len(c.Hist) == 0 && n%3 != 0 {
				continue
			}
			fdb, _ = runCase(c, fdb, i)
			n++
		}
		fdb.st.Close()
	}
	// large batches (the handler's default bulk size is 1000): a fault late in the batch leaves nothing behind
	for _, size := range []int{600, 1100} {
		var batch []*mocrelay.Event
		var ins []any
		for i := 0; i < size; i++ {
			e := abs.Event{ID: fmt.Sprintf("big%d_%d", size, i), Author: "c", Kind: 1, TS: int64(1 + i%50)}
			ce := conc.Event(e, "b")
			inserted[ce.ID] = ce
			batch = append(batch, ce)
			ins = append(ins, map[string]any{"op": "ins", "e": e})
		}
		if err := mem.st.Reset(); err != nil {
			run.Problem("reset: %v", err)
			break
		}
		mem.inj.Arm(0)
		if err := mem.st.Insert(batch); err != nil {
			run.Violate("insert-error without fault (large batch)", err.Error(), nil)
			break
		}
		total, _ := mem.inj.Disarm()
		for _, failAt := range []int{total, total - 1, total / 2, 7 + size} {
			mem.st.Reset()
			seedEv := real["r1"]
			mem.st.Insert([]*mocrelay.Event{seedEv})
			tr := tv.Trace{Name: fmt.Sprintf("large batch of %d, fault at statement %d of %d", size, failAt, total)}
			tr.Lines = append(tr.Lines, map[string]any{"op": "reset"}, map[string]any{"op": "begin"}, map[string]any{"op": "ins", "e": txUniverse["r1"]}, map[string]any{"op": "commit"})
			tr.Lines = append(tr.Lines, map[string]any{"op": "begin"})
			tr.Lines = append(tr.Lines, ins...)
			mem.inj.Arm(failAt)
			ierr := mem.st.Insert(batch)
			_, log := mem.inj.Disarm()
			run.Add("fault_runs", 1)
			distinct.Add(fmt.Sprint("large", size, failAt))
			if !mem.inj.Fired {
				drift++
				continue
			}
			if ierr == nil {
				run.Violate("c14:fault swallowed (large batch) at "+log[len(log)-1], tr.Name, nil)
			}
			got, err := mem.st.Query(matchAll)
			if err != nil {
				run.Violate("query-error after failed large batch", err.Error(), nil)
				continue
			}
			l := conc.Labels(got)
			tr.Lines = append(tr.Lines, map[string]any{"op": "rollback"}, map[string]any{"op": "list", "res": l, "shape": fmt.Sprintf("list after a failed batch of %d events", size)})
			if len(l) != 1 {
				run.Violate(fmt.Sprintf("c14:failed large batch left %s events behind", map[bool]string{true: "some", false: "no"}[len(l) > 1]),
					fmt.Sprintf("%s: %d events listed afterwards, 1 before", tr.Name, len(l)), nil)
			}
			traces = append(traces, tr)
		}
	}
	// handler level: NewSQLiteHandler on a reopened file database keeps the seed
	c14HandlerReopen(run, dir, conc, real)

	out, err := tv.Validate(sqlTraceSpec, nil, traces, 6)
	if out != nil {
		run.Add("traces_validated_against_impl", int64(out.Accepted+len(out.Rejects)))
		run.Add("trace_lines", int64(out.Lines))
	}
	if err != nil {
		run.Problem("SqlTrace validation failed to run: %v", err)
	} else {
		for _, rj := range out.Rejects {
			b, _ := json.Marshal(rj.Line)
			run.Violate("trace:"+lineShape(rj.Line), fmt.Sprintf("%s line %d is not explained by SqlStore/SqlTrace: %s", rj.Trace.Name, rj.LineIdx, b),
				map[string]any{"trace": rj.Trace.Lines[:rj.LineIdx+1]})
		}
		if len(traces) > 0 {
			// canary: after a rollback line, claim the batch's events are listed
			var c tv.Trace
			for _, tr := range traces {
				for i, l := range tr.Lines {
					m := l.(map[string]any)
					if m["op"] == "rollback" && i+1 < len(tr.Lines) {
						c = tv.Trace{Name: "canary", Lines: append([]any{}, tr.Lines[:i+1]...)}
						c.Lines = append(c.Lines, map[string]any{"op": "list", "res": []string{"zz"}})
						break
					}
				}
				if c.Lines != nil {
					break
				}
			}
			if c.Lines != nil {
				rej, err := tv.Rejects(sqlTraceSpec, nil, c)
				if err != nil {
					run.Problem("canary failed to run: %v", err)
				} else if !rej {
					run.Problem("canary (listing changed after rollback) accepted by SqlTrace")
				} else {
					run.Add("canaries_rejected", 1)
				}
			}
			run.Sample(map[string]any{"trace": traces[len(traces)/2].Name, "lines": traces[len(traces)/2].Lines})
		}
	}
	run.Set("model_drift_statement_count", int64(drift))
	run.Level = "fault_enumeration"
	run.Set("rule", "TLC explores SqlTx (one batch at statement grain: BeginTx, 5 Prepare, per event upsert/payload/tag/tombstone statements, Commit; every FailAt index; up to 2 batches of up to 2 events over a 6-event universe) checking Atomic, Refines(batch grain), Idempotent, and exports every (history, batch, failAt) with the statement count and the live sets before/after. The harness runs the sampled (quick) or all (thorough) cases on real SQLite through a fault-injecting database/sql driver that fails exactly that statement: error reported, listing + probe unchanged, retry, re-insertion of the same batch, and on a file database close/reopen followed by a newer version and a deletion request; every run is a trace validated against SqlTrace (rollback => saved state, same => unchanged state). distinct_nontrivial = distinct (batch, executed statement sequence, fired) combinations")
	run.Set("evaluations", run.Get("fault_runs"))
	run.Set("distinct_nontrivial", distinct.Len())
	run.Assume = append(run.Assume, "SQLite's own journal/rollback is trusted; a failing statement is simulated by the driver returning an error before executing it; a failing Commit rolls back",
		"crash points inside SQLite (power loss) are not simulated")
}

// c14HandlerReopen: the handler constructed on a reopened file database must
// see the stored events and keep replacing / hiding (same seed).
func c14HandlerReopen(run *core.Run, dir string, conc *abs.Conc, real map[string]*mocrelay.Event) {
	dsn := "file:" + filepath.Join(dir, "handler.sqlite")
	open := func() (*sqlStore, mocrelay.Handler, context.CancelFunc, error) {
		st, err := openSQL(dsn)
		if err != nil {
			return nil, nil, nil, err
		}
		ctx, cancel := context.WithCancel(context.Background())
		h, err := mocsqlite.NewSQLiteHandler(ctx, st.db, &mocsqlite.SQLiteHandlerOption{EventBulkInsertNum: 1, EventBulkInsertDur: time.Hour, MaxLimit: mocsqlite.NoLimit})
		if err != nil {
			cancel()
			st.Close()
			return nil, nil, nil, err
		}
		return st, h, cancel, nil
	}
	st, h, cancel, err := open()
	if err != nil {
		run.Problem("handler open: %v", err)
		return
	}
	a := newHandlerAdapter(h)
	a.Add(real["x1"])
	a.Add(real["r1"])
	waitListed(a, 2)
	a.Close()
	cancel()
	time.Sleep(20 * time.Millisecond)
	st.Close()
	st, h, cancel, err = open()
	if err != nil {
		run.Violate("c14:handler reopen failed", err.Error(), nil)
		return
	}
	defer func() { cancel(); time.Sleep(20 * time.Millisecond); st.Close() }()
	a = newHandlerAdapter(h)
	defer a.Close()
	got := waitListed(a, 2)
	if abs.KeyOf(conc.Labels(got)) != "r1,x1" {
		run.Violate("c14:handler lost events across reopen", fmt.Sprint(conc.Labels(got)), nil)
		return
	}
	a.Add(real["x2"]) // newer version of x1's address
	a.Add(real["k3"]) // foreign deletion request: hides nothing
	var l []string
	for i := 0; i < 200; i++ {
		evs, _ := a.Find(matchAll)
		l = conc.Labels(evs)
		if abs.KeyOf(l) == "k3,r1,x2" {
			break
		}
		time.Sleep(5 * time.Millisecond)
	}
	if abs.KeyOf(l) != "k3,r1,x2" {
		run.Violate("c14:replacement across reopen through the handler", fmt.Sprintf("expected [k3 r1 x2], listed %v (seed not stable?)", l), nil)
	}
	run.Add("handler_reopen_runs", 1)
}

func waitListed(a *handlerAdapter, n int) []*mocrelay.Event {
	var evs []*mocrelay.Event
	for i := 0; i < 400; i++ {
		evs, _ = a.Find(matchAll)
		if len(evs) >= n {
			return evs
		}
		time.Sleep(5 * time.Millisecond)
	}
	return evs
}
