package checks

import (
	"fmt"
	"math/rand"
	"strconv"

	"verif/harness/internal/abs"
)

// Gen produces abstract events and filters over small alphabets, so that
// replacement, deletion, blocking, eviction and ties all happen often.
type Gen struct {
	R       *rand.Rand
	Authors []string
	MaxTS   int64
	next    int
	Hist    []abs.Event // everything generated so far (for references and re-offers)
	Prefix  string
	// Shape knobs
	Extreme     bool // now and then a created_at / since / until at the ends of the int64 range
	NoEphemeral bool
	SQL         bool // avoid shapes the SQLite property leaves open (d-less addressable)
}

func NewGen(r *rand.Rand, prefix string) *Gen {
	return &Gen{R: r, Authors: []string{"a", "b", "c"}, MaxTS: 12, Prefix: prefix}
}

func (g *Gen) pick(xs []string) string { return xs[g.R.Intn(len(xs))] }

var genKinds = []int64{1, 1, 1, 0, 0, 3, 10002, 30000, 30000, 30000, 30001, 20000, 5, 5, 5, 4}

func cls(kind int64) string {
	switch {
	case kind == 0 || kind == 3 || (10000 <= kind && kind < 20000):
		return "replaceable"
	case 20000 <= kind && kind < 30000:
		return "ephemeral"
	case 30000 <= kind && kind < 40000:
		return "addressable"
	}
	return "regular"
}

func (g *Gen) label() string {
	g.next++
	return g.Prefix + strconv.Itoa(g.next)
}

// knownLabel returns the label of an earlier event (or a dangling label).
func (g *Gen) knownLabel() string {
	if len(g.Hist) == 0 || g.R.Intn(10) == 0 {
		return g.Prefix + "x" + strconv.Itoa(g.R.Intn(5))
	}
	return g.Hist[g.R.Intn(len(g.Hist))].ID
}

// Event generates a fresh event (never self-referencing).
func (g *Gen) Event() abs.Event {
	e := abs.Event{ID: g.label(), Author: g.pick(g.Authors), TS: 1 + g.R.Int63n(g.MaxTS)}
	if g.Extreme && g.R.Intn(5) == 0 {
		e.TS = []int64{-1000000, -999999, 999999, 1000000}[g.R.Intn(4)]
	}
	e.Kind = genKinds[g.R.Intn(len(genKinds))]
	if g.NoEphemeral && cls(e.Kind) == "ephemeral" {
		e.Kind = 1
	}
	var tags []abs.Tag
	switch e.Kind {
	case 30000:
		// always carries a d tag: value x / y / "" / name only / with an extra element
		switch g.R.Intn(6) {
		case 0, 1:
			tags = append(tags, abs.Tag{Name: "d", Val: "x", N: 2})
		case 2:
			tags = append(tags, abs.Tag{Name: "d", Val: "y", N: 2})
		case 3:
			tags = append(tags, abs.Tag{Name: "d", Val: "", N: 2})
		case 4:
			tags = append(tags, abs.Tag{Name: "d", Val: "", N: 1})
		case 5:
			tags = append(tags, abs.Tag{Name: "d", Val: "x", N: 3})
		}
		if g.R.Intn(8) == 0 {
			tags[len(tags)-1].Val = []string{"u:v", "u", "u:v:w"}[g.R.Intn(3)]
			tags[len(tags)-1].N = 2
		}
		if g.R.Intn(5) == 0 { // a second d tag is ignored
			tags = append(tags, abs.Tag{Name: "d", Val: "y", N: 2})
		}
	case 30001:
		// never carries a d tag (d-less addressable). For SQLite the property
		// leaves these open, so none is generated there.
		if g.SQL {
			e.Kind = 30000
			tags = append(tags, abs.Tag{Name: "d", Val: "x", N: 2})
		}
	case 5:
		n := 1 + g.R.Intn(3)
		for i := 0; i < n; i++ {
			nel := 2
			if g.R.Intn(4) == 0 {
				nel = 3
			}
			if g.R.Intn(3) == 0 {
				// address reference to an addressable (kind 30000) address
				a := e.Author
				if g.R.Intn(4) == 0 {
					a = g.pick(g.Authors)
				}
				d := []string{"x", "y", "", "u:v", "u"}[g.R.Intn(5)]
				tags = append(tags, abs.Tag{Name: "a", Val: "30000:" + a + ":" + d, N: nel})
			} else {
				tags = append(tags, abs.Tag{Name: "e", Val: g.knownLabel(), N: nel})
			}
		}
	}
	// ordinary tags
	for i := g.R.Intn(3); i > 0; i-- {
		switch g.R.Intn(5) {
		case 0:
			tags = append(tags, abs.Tag{Name: "t", Val: g.pick([]string{"x", "y"}), N: 2})
		case 1:
			tags = append(tags, abs.Tag{Name: "p", Val: g.pick(g.Authors), N: 2 + g.R.Intn(2)})
		case 2:
			if e.Kind != 5 {
				tags = append(tags, abs.Tag{Name: "e", Val: g.knownLabel(), N: 2})
			}
		case 3:
			tags = append(tags, abs.Tag{Name: "t", Val: "", N: 1})
		case 4:
			tags = append(tags, abs.Tag{Name: "title", Val: "x", N: 2}) // multi-letter name: not indexed
		}
	}
	e.Tags = tags
	g.Hist = append(g.Hist, e)
	return e
}

// Offer returns the next event to insert: mostly fresh, sometimes a re-offer
// of an earlier one (duplicate, older version after newer, after eviction).
func (g *Gen) Offer() abs.Event {
	if len(g.Hist) > 0 && g.R.Intn(4) == 0 {
		return g.Hist[g.R.Intn(len(g.Hist))]
	}
	return g.Event()
}

func (g *Gen) subset(xs []string, max int) []string {
	n := g.R.Intn(max + 1)
	out := []string{}
	for i := 0; i < n; i++ {
		out = append(out, xs[g.R.Intn(len(xs))])
	}
	return out
}

// Filter generates a random filter; selective and non-selective shapes.
func (g *Gen) Filter() abs.Filter {
	var f abs.Filter
	f.Tags = map[string][]string{}
	r := g.R
	if r.Intn(5) == 0 {
		labels := []string{}
		for i := r.Intn(4); i > 0; i-- {
			labels = append(labels, g.knownLabel())
		}
		f.IDs = abs.StrSet{P: true, S: labels}
	}
	if r.Intn(3) == 0 {
		f.Authors = abs.StrSet{P: true, S: g.subset(g.Authors, 2)}
	}
	if r.Intn(3) == 0 {
		ks := []int64{}
		for i := r.Intn(3); i > 0; i-- {
			ks = append(ks, genKinds[r.Intn(len(genKinds))])
		}
		f.Kinds = abs.IntSet{P: true, S: ks}
	}
	if r.Intn(4) == 0 {
		switch r.Intn(5) {
		case 0:
			f.Tags["t"] = g.subset([]string{"x", "y", ""}, 2)
		case 1:
			f.Tags["p"] = g.subset(g.Authors, 2)
		case 2:
			f.Tags["e"] = []string{g.knownLabel(), g.knownLabel()}
		case 3:
			f.Tags["d"] = g.subset([]string{"x", "y", ""}, 2)
		case 4:
			f.Tags["a"] = []string{"30000:" + g.pick(g.Authors) + ":x"}
		}
		if r.Intn(4) == 0 {
			f.Tags["t"] = []string{"x"}
		}
	}
	if r.Intn(4) == 0 {
		f.Since = abs.OptInt{P: true, V: r.Int63n(g.MaxTS + 1)}
	}
	if r.Intn(4) == 0 {
		f.Until = abs.OptInt{P: true, V: f.Since.V + r.Int63n(g.MaxTS+1)}
	}
	if r.Intn(2) == 0 {
		f.Limit = abs.OptInt{P: true, V: []int64{0, 1, 1, 2, 3, 5}[r.Intn(6)]}
	}
	if g.Extreme && r.Intn(3) == 0 {
		if r.Intn(2) == 0 {
			f.Until = abs.OptInt{P: true, V: []int64{999999, 1000000}[r.Intn(2)]}
		} else {
			f.Since = abs.OptInt{P: true, V: []int64{-1000000, 999999}[r.Intn(2)]}
			f.Until = abs.OptInt{}
		}
	}
	return f
}

func (g *Gen) Filters() []abs.Filter {
	n := 1
	switch g.R.Intn(6) {
	case 0:
		n = 2
	case 1:
		n = 3
	}
	fs := make([]abs.Filter, n)
	for i := range fs {
		fs[i] = g.Filter()
	}
	return fs
}

func describeFilters(fs []abs.Filter) string {
	s := ""
	for _, f := range fs {
		s += "{"
		if f.IDs.P {
			s += fmt.Sprintf("ids%d,", len(f.IDs.S))
		}
		if f.Authors.P {
			s += fmt.Sprintf("authors%d,", len(f.Authors.S))
		}
		if f.Kinds.P {
			s += fmt.Sprintf("kinds%d,", len(f.Kinds.S))
		}
		for n := range f.Tags {
			s += "#" + n + ","
		}
		if f.Since.P {
			s += "since,"
		}
		if f.Until.P {
			s += "until,"
		}
		if f.Limit.P {
			s += fmt.Sprintf("limit=%d,", f.Limit.V)
		}
		s += "}"
	}
	return s
}
