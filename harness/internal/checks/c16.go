package checks

import (
	"bytes"
	"context"
	"encoding/json"
	"fmt"
	"sort"
	"time"

	"github.com/high-moctane/mocrelay"
	mocsqlite "github.com/high-moctane/mocrelay/handler/sqlite"

	"verif/harness/internal/abs"
	"verif/harness/internal/core"
	"verif/harness/internal/tv"
)

var handlerTraceSpec = tv.Spec{Module: "HandlerTrace", Config: "HandlerTrace.cfg", DFS: true}

const sentinelSub = "zz-end"

// runSession pipelines msgs into one ServeNostr session while a reader
// collects everything the handler sends; the final sentinel COUNT makes the
// end observable (the handler is sequential).
func runSession(h mocrelay.Handler, msgs []mocrelay.ClientMsg, timeout time.Duration) (outs []mocrelay.ServerMsg, complete bool) {
	return runSessionWith(h, msgs, timeout, sentinelSub)
}

func runSessionWith(h mocrelay.Handler, msgs []mocrelay.ClientMsg, timeout time.Duration, sentinel string) (outs []mocrelay.ServerMsg, complete bool) {
	isSentinel := func(m mocrelay.ServerMsg) bool {
		c, ok := m.(*mocrelay.ServerCountMsg)
		return ok && c.SubscriptionID == sentinel
	}
	ctx, cancel := context.WithCancel(context.Background())
	defer cancel()
	send := make(chan mocrelay.ServerMsg)
	recv := make(chan mocrelay.ClientMsg)
	done := make(chan struct{})
	go func() { h.ServeNostr(ctx, send, recv); close(done) }()
	all := append(append([]mocrelay.ClientMsg{}, msgs...), &mocrelay.ClientCountMsg{SubscriptionID: sentinel, ReqFilters: []*mocrelay.ReqFilter{{}}})
	go func() {
		for _, m := range all {
			select {
			case recv <- m:
			case <-ctx.Done():
				return
			}
		}
	}()
	deadline := time.After(timeout)
	for {
		select {
		case m := <-send:
			outs = append(outs, m)
			if isSentinel(m) {
				cancel()
				select {
				case <-done:
				case <-time.After(3 * time.Second):
				}
				return outs, true
			}
		case <-deadline:
			cancel()
			return outs, false
		}
	}
}

// runSessionSlow is runSession with a client that pauses between two reads.
func runSessionSlow(h mocrelay.Handler, msgs []mocrelay.ClientMsg, timeout, pause time.Duration) (outs []mocrelay.ServerMsg, complete bool) {
	ctx, cancel := context.WithCancel(context.Background())
	defer cancel()
	send := make(chan mocrelay.ServerMsg)
	recv := make(chan mocrelay.ClientMsg)
	done := make(chan struct{})
	go func() { h.ServeNostr(ctx, send, recv); close(done) }()
	all := append(append([]mocrelay.ClientMsg{}, msgs...), &mocrelay.ClientCountMsg{SubscriptionID: sentinelSub, ReqFilters: []*mocrelay.ReqFilter{{}}})
	go func() {
		for _, m := range all {
			select {
			case recv <- m:
			case <-ctx.Done():
				return
			}
		}
	}()
	deadline := time.After(timeout)
	for {
		select {
		case m := <-send:
			outs = append(outs, m)
			if c, ok := m.(*mocrelay.ServerCountMsg); ok && c.SubscriptionID == sentinelSub {
				cancel()
				select {
				case <-done:
				case <-time.After(3 * time.Second):
				}
				return outs, true
			}
			time.Sleep(pause)
		case <-deadline:
			return outs, false
		}
	}
}

func c16SQLiteStall(run *core.Run, traces *[]tv.Trace, distinct *core.DistinctSet) {
	conc := abs.NewConc()
	st, err := openMemSQL()
	if err != nil {
		run.Problem("sqlite: %v", err)
		return
	}
	ctx, cancel := context.WithCancel(context.Background())
	defer func() { cancel(); time.Sleep(5 * time.Millisecond); st.Close() }()
	h, err := mocsqlite.NewSQLiteHandler(ctx, st.db, &mocsqlite.SQLiteHandlerOption{EventBulkInsertNum: 1, EventBulkInsertDur: time.Hour, MaxLimit: mocsqlite.NoLimit})
	if err != nil {
		run.Problem("sqlite handler: %v", err)
		return
	}
	// hold the database's only connection for 600 ms
	conn, err := st.db.Conn(ctx)
	if err != nil {
		run.Problem("conn: %v", err)
		return
	}
	go func() { time.Sleep(600 * time.Millisecond); conn.Close() }()
	var msgs []mocrelay.ClientMsg
	var lines []any
	for i := 0; i < 8; i++ {
		e := abs.Event{ID: fmt.Sprintf("stall%d", i), Author: "a", Kind: 1, TS: int64(i + 1)}
		msgs = append(msgs, &mocrelay.ClientEventMsg{Event: conc.Event(e, "c")})
		lines = append(lines, map[string]any{"op": "EVENT", "e": e, "shape": "EVENT while the database is busy"})
	}
	outs, complete := runSession(h, msgs, 15*time.Second)
	if !complete {
		run.Violate("session:sqlite:database busy: no reply to the final sentinel within 15s", fmt.Sprintf("%d outputs", len(outs)), nil)
		return
	}
	var aouts []any
	for _, m := range outs {
		aouts = append(aouts, absOut(conc, m))
	}
	tr := tv.Trace{Name: "sqlite-database-busy"}
	tr.Lines = append(tr.Lines, map[string]any{"op": "reset", "mode": "sqlite", "cap": 1, "outs": aouts})
	tr.Lines = append(tr.Lines, lines...)
	tr.Lines = append(tr.Lines, map[string]any{"op": "COUNT", "sub": sentinelSub, "shape": "sentinel COUNT"}, map[string]any{"op": "end", "shape": "end: output left over"})
	*traces = append(*traces, tr)
	run.Add("messages_sent", int64(len(msgs)))
	distinct.Add(tr.Name)
}

func absOut(conc *abs.Conc, m mocrelay.ServerMsg) map[string]any {
	switch m := m.(type) {
	case *mocrelay.ServerOKMsg:
		return map[string]any{"t": "OK", "id": conc.Label(m.EventID), "acc": m.Accepted, "dup": m.MsgPrefix == mocrelay.MachineReadablePrefixDuplicate,
			"sub": "", "n": 0}
	case *mocrelay.ServerEventMsg:
		return map[string]any{"t": "EVENT", "sub": m.SubscriptionID, "id": conc.Label(m.Event.ID), "acc": false, "dup": false, "n": 0}
	case *mocrelay.ServerEOSEMsg:
		return map[string]any{"t": "EOSE", "sub": m.SubscriptionID, "id": "", "acc": false, "dup": false, "n": 0}
	case *mocrelay.ServerCountMsg:
		return map[string]any{"t": "COUNT", "sub": m.SubscriptionID, "id": "", "acc": false, "dup": false, "n": int64(m.Count)}
	case *mocrelay.ServerClosedMsg:
		return map[string]any{"t": "CLOSED", "sub": m.SubscriptionID, "id": "", "acc": false, "dup": false, "n": 0}
	case *mocrelay.ServerNoticeMsg:
		return map[string]any{"t": "NOTICE", "sub": "", "id": "", "acc": false, "dup": false, "n": 0}
	default:
		return map[string]any{"t": fmt.Sprintf("%T", m), "sub": "", "id": "", "acc": false, "dup": false, "n": 0}
	}
}

// C16: storage handlers reply completely and in order; dump/restore lossless.
func C16(run *core.Run) {
	nt, steps := 40, 24
	if run.Thorough() {
		nt, steps = 400, 40
	}
	r := run.Rand("c16")
	distinct := core.NewDistinct()
	var traces []tv.Trace
	for t := 0; t < nt; t++ {
		conc := abs.NewConc()
		g := NewGen(r, fmt.Sprintf("s%d_", t))
		g.Extreme = t%3 == 1
		mode := "cache"
		cap := 1 + r.Intn(6)
		var h mocrelay.Handler
		var cleanup func()
		if t%2 == 1 {
			mode = "sqlite"
			g.SQL = true
			st, err := openMemSQL()
			if err != nil {
				run.Problem("sqlite: %v", err)
				return
			}
			ctx, cancel := context.WithCancel(context.Background())
			hh, err := mocsqlite.NewSQLiteHandler(ctx, st.db, &mocsqlite.SQLiteHandlerOption{EventBulkInsertNum: 1, EventBulkInsertDur: time.Hour, MaxLimit: mocsqlite.NoLimit})
			if err != nil {
				cancel()
				run.Problem("sqlite handler: %v", err)
				return
			}
			h = hh
			cleanup = func() { cancel(); time.Sleep(5 * time.Millisecond); st.Close() }
		} else {
			h = mocrelay.NewCacheHandler(cap)
			cleanup = func() {}
		}
		var msgs []mocrelay.ClientMsg
		var lines []any
		n := steps/2 + r.Intn(steps)
		for i := 0; i < n; i++ {
			switch k := r.Intn(10); {
			case k < 5 && r.Intn(6) == 0:
				// a theme: an event of any class (ephemeral ones are acknowledged and not stored), a deletion request of its
				// author that names it by id, the event once more -- the second OK rejects whatever the class
				e := g.Event()
				for cls(e.Kind) == "regular" && e.Kind == 5 {
					e = g.Event()
				}
				if r.Intn(3) == 0 {
					e.Kind = 20000 + int64(r.Intn(2)) // often an ephemeral one: acknowledged the first time, refused once its deletion request is stored
					g.Hist[len(g.Hist)-1] = e
				}
				kts := e.TS // (the extreme abstract timestamps stand for the ends of the int64 range: no arithmetic on them)
				if 2 <= e.TS && e.TS < g.MaxTS {
					kts += int64(r.Intn(3)) - 1
				}
				k5 := abs.Event{ID: g.label(), Author: e.Author, Kind: 5, TS: kts, Tags: []abs.Tag{{Name: "e", Val: e.ID, N: 2}}}
				g.Hist = append(g.Hist, k5)
				for _, x := range []abs.Event{e, k5, e} {
					msgs = append(msgs, &mocrelay.ClientEventMsg{Event: conc.Event(x, "c")})
					lines = append(lines, map[string]any{"op": "EVENT", "e": x, "shape": "EVENT " + cls(x.Kind) + " (event, its deletion request, the event again)"})
				}
			case k < 5:
				e := g.Offer()
				msgs = append(msgs, &mocrelay.ClientEventMsg{Event: conc.Event(e, "c")})
				lines = append(lines, map[string]any{"op": "EVENT", "e": e, "shape": "EVENT " + cls(e.Kind)})
			case k < 8:
				fs := g.Filters()
				if r.Intn(2) == 0 {
					fs = []abs.Filter{{}}
				}
				sub := fmt.Sprintf("sub%d", r.Intn(3))
				msgs = append(msgs, &mocrelay.ClientReqMsg{SubscriptionID: sub, ReqFilters: conc.Filters(fs)})
				lines = append(lines, map[string]any{"op": "REQ", "sub": sub, "fs": abs.NormFilters(fs), "shape": "REQ " + describeFilters(fs)})
			case k == 8 && r.Intn(3) == 0:
				// a REQ that the store cannot turn into a query (an id / author condition that is not hex; the typed API accepts it):
				// it matches nothing, and it is still a REQ -- exactly one EOSE, and the session goes on
				sub := fmt.Sprintf("sub%d", r.Intn(3))
				af := abs.Filter{IDs: abs.StrSet{P: true, S: []string{"nohex"}}}
				cf := &mocrelay.ReqFilter{IDs: []string{"zz"}}
				if r.Intn(2) == 0 {
					af = abs.Filter{Authors: abs.StrSet{P: true, S: []string{"nohex"}}}
					cf = &mocrelay.ReqFilter{Authors: []string{"not hex at all"}}
				}
				msgs = append(msgs, &mocrelay.ClientReqMsg{SubscriptionID: sub, ReqFilters: []*mocrelay.ReqFilter{cf}})
				lines = append(lines, map[string]any{"op": "REQ", "sub": sub, "fs": abs.NormFilters([]abs.Filter{af}), "shape": "REQ with a condition that is not hex"})
			case k == 8:
				sub := fmt.Sprintf("cnt%d", r.Intn(2))
				msgs = append(msgs, &mocrelay.ClientCountMsg{SubscriptionID: sub, ReqFilters: conc.Filters([]abs.Filter{{}})})
				lines = append(lines, map[string]any{"op": "COUNT", "sub": sub, "shape": "COUNT"})
			default:
				if r.Intn(2) == 0 {
					msgs = append(msgs, &mocrelay.ClientCloseMsg{SubscriptionID: "sub0"})
					lines = append(lines, map[string]any{"op": "CLOSE", "shape": "CLOSE"})
				} else {
					msgs = append(msgs, &mocrelay.ClientAuthMsg{Event: conc.Event(g.Event(), "auth")})
					lines = append(lines, map[string]any{"op": "AUTH", "shape": "AUTH"})
				}
			}
		}
		outs, complete := runSession(h, msgs, 10*time.Second)
		cleanup()
		if !complete {
			run.Violate("session:"+mode+":no reply to the final sentinel within 10s (replies missing or handler stuck)",
				fmt.Sprintf("%d inputs, %d outputs", len(msgs), len(outs)), map[string]any{"inputs": lines})
			continue
		}
		var aouts []any
		for _, m := range outs {
			aouts = append(aouts, absOut(conc, m))
		}
		tr := tv.Trace{Name: fmt.Sprintf("%s-session-%d", mode, t)}
		tr.Lines = append(tr.Lines, map[string]any{"op": "reset", "mode": mode, "cap": cap, "outs": aouts})
		tr.Lines = append(tr.Lines, lines...)
		tr.Lines = append(tr.Lines, map[string]any{"op": "COUNT", "sub": sentinelSub, "shape": "sentinel COUNT"})
		tr.Lines = append(tr.Lines, map[string]any{"op": "end", "shape": "end: output left over (a reply too many)"})
		traces = append(traces, tr)
		distinct.Add(fmt.Sprint(mode, len(msgs), len(outs), t))
		run.Add("messages_sent", int64(len(msgs)))
	}
	// a REQ with a long answer pipelined with further requests, read by a slow client: order must hold
	for t := 0; t < 3; t++ {
		conc := abs.NewConc()
		h := mocrelay.NewCacheHandler(64)
		var msgs []mocrelay.ClientMsg
		var lines []any
		for i := 0; i < 40; i++ {
			e := abs.Event{ID: fmt.Sprintf("big%d_%d", t, i), Author: []string{"a", "b"}[i%2], Kind: 1, TS: int64(1 + i%7)}
			msgs = append(msgs, &mocrelay.ClientEventMsg{Event: conc.Event(e, "c")})
			lines = append(lines, map[string]any{"op": "EVENT", "e": e, "shape": "EVENT regular"})
		}
		for j := 0; j < 3; j++ {
			fs := []abs.Filter{{}}
			msgs = append(msgs, &mocrelay.ClientReqMsg{SubscriptionID: fmt.Sprintf("all%d", j), ReqFilters: conc.Filters(fs)})
			lines = append(lines, map[string]any{"op": "REQ", "sub": fmt.Sprintf("all%d", j), "fs": abs.NormFilters(fs), "shape": "REQ with a long answer, pipelined"})
			e := abs.Event{ID: fmt.Sprintf("late%d_%d", t, j), Author: "a", Kind: 1, TS: 9}
			msgs = append(msgs, &mocrelay.ClientEventMsg{Event: conc.Event(e, "c")})
			lines = append(lines, map[string]any{"op": "EVENT", "e": e, "shape": "EVENT right after a long REQ"})
			msgs = append(msgs, &mocrelay.ClientCountMsg{SubscriptionID: "cnt", ReqFilters: conc.Filters(fs)})
			lines = append(lines, map[string]any{"op": "COUNT", "sub": "cnt", "shape": "COUNT right after a long REQ"})
		}
		outs, complete := runSessionSlow(h, msgs, 20*time.Second, 150*time.Microsecond)
		if !complete {
			run.Violate("session:cache:long answer: no reply to the final sentinel", fmt.Sprintf("%d outputs", len(outs)), nil)
			continue
		}
		var aouts []any
		for _, m := range outs {
			aouts = append(aouts, absOut(conc, m))
		}
		tr := tv.Trace{Name: fmt.Sprintf("cache-long-answer-%d", t)}
		tr.Lines = append(tr.Lines, map[string]any{"op": "reset", "mode": "cache", "cap": 64, "outs": aouts})
		tr.Lines = append(tr.Lines, lines...)
		tr.Lines = append(tr.Lines, map[string]any{"op": "COUNT", "sub": sentinelSub, "shape": "sentinel COUNT"}, map[string]any{"op": "end", "shape": "end: output left over"})
		traces = append(traces, tr)
		run.Add("messages_sent", int64(len(msgs)))
		distinct.Add(tr.Name)
	}
	// SQLite: the database is busy for a while (its only connection is held); every EVENT is still accepted
	c16SQLiteStall(run, &traces, distinct)
	out, err := tv.Validate(handlerTraceSpec, nil, traces, 6)
	if out != nil {
		run.Add("traces_validated_against_impl", int64(out.Accepted+len(out.Rejects)))
		run.Add("trace_lines", int64(out.Lines))
		run.Add("states", out.TLCStates)
		run.Add("transitions", out.TLCTrans)
	}
	if err != nil {
		run.Problem("HandlerTrace validation failed to run: %v", err)
	} else {
		for _, rj := range out.Rejects {
			b, _ := json.Marshal(rj.Line)
			run.Violate("trace:"+tr0(rj.Trace.Name)+":"+lineShape(rj.Line),
				fmt.Sprintf("%s: replies to input line %d do not follow the protocol: %s", rj.Trace.Name, rj.LineIdx, b),
				map[string]any{"trace": rj.Trace.Lines[:rj.LineIdx+1]})
		}
		if len(traces) > 0 {
			run.Sample(map[string]any{"name": traces[0].Name, "lines": traces[0].Lines[:min(6, len(traces[0].Lines))]})
			// canaries: (1) duplicate an EOSE, (2) swap two adjacent outputs of different type
			for variant := 0; variant < 2; variant++ {
				c := canaryHandlerTrace(traces, variant)
				if c == nil {
					run.Problem("no canary could be built (variant %d)", variant)
					continue
				}
				rej, err := tv.Rejects(handlerTraceSpec, nil, *c)
				if err != nil {
					run.Problem("canary failed to run: %v", err)
				} else if !rej {
					run.Problem("canary (variant %d) accepted by HandlerTrace", variant)
				} else {
					run.Add("canaries_rejected", 1)
				}
			}
		}
	}
	c16DumpRestore(run, distinct)
	run.Set("rule", "seeded random client sessions over all five message types (EVENT of every class incl. duplicates and the theme event / its deletion request / the event again, REQ with random and match-all filter lists and, now and then, with an id / author condition that is not hex - it matches nothing, the SQLite store cannot build the query, the reply is still one EOSE -, COUNT, CLOSE, AUTH) are pipelined into NewCacheHandler(cap) and NewSQLiteHandler(EventBulkInsertNum=1); the complete output sequence is validated by TLC against HandlerTrace (replies in request order, one OK / EVENT* EOSE / one COUNT / nothing; cache verdicts from Store!AddRel, SQLite background insertion as silent Flush steps). Dump/Restore: every cache state reached by the histories is dumped, restored into a fresh handler of the same capacity, and probe queries of the restored handler are judged against the original listing (FindTrace); TLC also checks DumpRestoreOK on every state of StoreMC (C04 run). distinct_nontrivial = distinct sessions + distinct dumped states")
	run.Set("evaluations", run.Get("messages_sent")+run.Get("restore_probes"))
	run.Set("distinct_nontrivial", distinct.Len())
	run.Assume = append(run.Assume, "the count value of COUNT replies is not constrained by the property", "SQLite REQ answers may or may not include events still in the insertion queue")
}

func tr0(name string) string {
	if len(name) >= 5 && name[:5] == "cache" {
		return "cache"
	}
	return "sqlite"
}

func canaryHandlerTrace(traces []tv.Trace, variant int) *tv.Trace {
	for _, tr := range traces {
		m := tr.Lines[0].(map[string]any)
		outs := m["outs"].([]any)
		var nouts []any
		done := false
		for i, o := range outs {
			om := o.(map[string]any)
			if !done && variant == 0 && om["t"] == "EOSE" {
				nouts = append(nouts, o, o)
				done = true
				continue
			}
			if !done && variant == 1 && i+1 < len(outs) && om["t"] == "OK" && outs[i+1].(map[string]any)["t"] == "EOSE" {
				nouts = append(nouts, outs[i+1], o)
				nouts = append(nouts, outs[i+2:]...)
				done = true
				break
			}
			nouts = append(nouts, o)
		}
		if !done {
			continue
		}
		cm := map[string]any{}
		for k, v := range m {
			cm[k] = v
		}
		cm["outs"] = nouts
		c := tv.Trace{Name: "canary", Lines: append([]any{cm}, tr.Lines[1:]...)}
		return &c
	}
	return nil
}

// c16DumpRestore: Restore(Dump(c)) into an empty cache of the same capacity
// answers every query like c.
func c16DumpRestore(run *core.Run, distinct *core.DistinctSet) {
	nt := 60
	if run.Thorough() {
		nt = 600
	}
	r := run.Rand("c16-dump")
	var traces []tv.Trace
	for t := 0; t < nt; t++ {
		conc := abs.NewConc()
		g := NewGen(r, fmt.Sprintf("d%d_", t))
		g.Extreme = t%3 == 1
		cap := 1 + r.Intn(8)
		h := mocrelay.NewCacheHandler(cap)
		a := newHandlerAdapter(h)
		tr := tv.Trace{Name: fmt.Sprintf("dump-%d-cap%d", t, cap)}
		defined := map[string]bool{}
		n := 5 + r.Intn(40)
		for i := 0; i < n; i++ {
			e := g.Offer()
			if !defined[e.ID] {
				defined[e.ID] = true
				tr.Lines = append(tr.Lines, map[string]any{"op": "def", "e": e})
			}
			a.Add(conc.Event(e, randContent(r)))
		}
		orig, _ := a.Find(matchAll)
		// the original's own answers (a compound filter first, then its single-condition parts)
		origListing := conc.Labels(orig)
		origProbes := [][]abs.Filter{
			{{Authors: abs.StrSet{P: true, S: []string{"a"}}, Kinds: abs.IntSet{P: true, S: []int64{1}}}},
			{{Authors: abs.StrSet{P: true, S: []string{"a"}}}},
			{{Kinds: abs.IntSet{P: true, S: []int64{1}}}},
			{{Authors: abs.StrSet{P: true, S: []string{"b"}}, Tags: map[string][]string{"t": {"x"}}}},
			{{Tags: map[string][]string{"t": {"x"}}}},
		}
		for _, fs := range origProbes {
			res, err := a.Find(conc.Filters(fs))
			if err != nil {
				break
			}
			run.Add("restore_probes", 1)
			tr.Lines = append(tr.Lines, map[string]any{"op": "find", "S": origListing, "fs": abs.NormFilters(fs), "res": conc.Labels(res),
				"shape": "cache before dump: find " + describeFilters(fs)})
		}
		a.Close()
		var buf bytes.Buffer
		if err := h.Dump(&buf); err != nil {
			run.Violate("dump:error", err.Error(), nil)
			continue
		}
		h2 := mocrelay.NewCacheHandler(cap)
		if err := h2.Restore(bytes.NewReader(buf.Bytes())); err != nil {
			run.Violate("restore:error", err.Error(), map[string]any{"dump": buf.String()})
			continue
		}
		b := newHandlerAdapter(h2)
		listing := conc.Labels(orig)
		distinct.Add("dump:" + abs.KeyOf(listing))
		// the restored listing itself, then probes
		probes := append([][]abs.Filter{{{}}}, origProbes...)
		for j := 0; j < 5; j++ {
			probes = append(probes, g.Filters())
		}
		for _, fs := range probes {
			res, err := b.Find(conc.Filters(fs))
			if err != nil {
				run.Violate("restore:protocol", err.Error(), nil)
				break
			}
			// all seven fields survive
			byID := map[string]*mocrelay.Event{}
			for _, e := range orig {
				byID[e.ID] = e
			}
			checkFields(run, "restore", byID, res)
			run.Add("restore_probes", 1)
			tr.Lines = append(tr.Lines, map[string]any{"op": "find", "S": listing, "fs": abs.NormFilters(fs), "res": conc.Labels(res),
				"shape": "restored cache: find " + describeFilters(fs)})
		}
		// the listing must be complete, not just valid for some filter: compare sets
		rl, _ := b.Find(matchAll)
		b.Close()
		got := conc.Labels(rl)
		sort.Strings(got)
		if abs.KeyOf(got) != abs.KeyOf(listing) {
			run.Violate("restore:listing differs", fmt.Sprintf("cap %d: dumped %v restored %v", cap, listing, got), map[string]any{"dump": buf.String()})
		}
		traces = append(traces, tr)
	}
	validateFindTraces(run, nil, traces, "restore")
	// a large cache with many created_at ties: the dump must list every retained event
	for t := 0; t < 2; t++ {
		conc := abs.NewConc()
		cap := 700
		h := mocrelay.NewCacheHandler(cap)
		a := newHandlerAdapter(h)
		for i := 0; i < 620; i++ {
			e := abs.Event{ID: fmt.Sprintf("L%d_%d", t, i), Author: []string{"a", "b", "c"}[i%3], Kind: 1, TS: int64(1 + r.Intn(9))}
			a.Add(conc.Event(e, "c"))
		}
		orig, _ := a.Find(matchAll)
		a.Close()
		var buf bytes.Buffer
		if err := h.Dump(&buf); err != nil {
			run.Violate("dump:error", err.Error(), nil)
			continue
		}
		h2 := mocrelay.NewCacheHandler(cap)
		if err := h2.Restore(bytes.NewReader(buf.Bytes())); err != nil {
			run.Violate("restore:error", err.Error(), nil)
			continue
		}
		b := newHandlerAdapter(h2)
		rest, _ := b.Find(matchAll)
		lim := int64(300)
		restLim, _ := b.Find([]*mocrelay.ReqFilter{{Limit: &lim}})
		b.Close()
		run.Add("restore_probes", 2)
		distinct.Add(fmt.Sprint("dump-large", t))
		if abs.KeyOf(conc.Labels(orig)) != abs.KeyOf(conc.Labels(rest)) || len(restLim) != 300 {
			run.Violate("restore:listing differs (large cache with created_at ties)", fmt.Sprintf("dumped %d events, the restored cache lists %d (limit 300 -> %d)", len(orig), len(rest), len(restLim)), nil)
		}
	}
}
