package checks

import (
	"context"
	"database/sql"
	"encoding/json"
	"fmt"
	"math/rand"
	"reflect"
	"sort"
	"sync/atomic"
	"time"

	"github.com/high-moctane/mocrelay"
	mocsqlite "github.com/high-moctane/mocrelay/handler/sqlite"
	_ "github.com/mattn/go-sqlite3"

	"verif/harness/internal/abs"
	"verif/harness/internal/core"
	"verif/harness/internal/tlcrun"
	"verif/harness/internal/tv"
)

var sqlTraceSpec = tv.Spec{Module: "SqlTrace", Config: "SqlTrace.cfg"}

type sqlStore struct {
	db   *sql.DB
	seed uint32
}

var memCounter int64

func openSQL(dsn string) (*sqlStore, error) {
	db, err := sql.Open("sqlite3", dsn)
	if err != nil {
		return nil, err
	}
	db.SetMaxOpenConns(1)
	ctx := context.Background()
	if err := mocsqlite.Migrate(ctx, db); err != nil {
		db.Close()
		return nil, err
	}
	seed, err := mocsqlite.VerifSetOrLoadXXHashSeed(ctx, db)
	if err != nil {
		db.Close()
		return nil, err
	}
	return &sqlStore{db: db, seed: seed}, nil
}

func openMemSQL() (*sqlStore, error) {
	n := atomic.AddInt64(&memCounter, 1)
	return openSQL(fmt.Sprintf("file:verifmem%d?mode=memory&cache=shared", n))
}

func (s *sqlStore) Reset() error {
	for _, t := range []string{"events", "event_payloads", "event_tags", "deleted_event_keys", "deleted_event_ids"} {
		if _, err := s.db.Exec("delete from " + t); err != nil {
			return err
		}
	}
	return nil
}

func (s *sqlStore) Insert(evs []*mocrelay.Event) error {
	return mocsqlite.VerifInsertEvents(context.Background(), s.db, s.seed, evs)
}

func (s *sqlStore) Query(fs []*mocrelay.ReqFilter) ([]*mocrelay.Event, error) {
	return mocsqlite.VerifQueryEvent(context.Background(), s.db, s.seed, fs, mocsqlite.NoLimit)
}

func (s *sqlStore) Close() { s.db.Close() }

var contentAlphabet = []string{"a", "<", ">", "&", " ", " ", "\x00", "\"", "\\", "\n", "\t", "\x7f", "é", "日本", "😀", "\U0010FFFF", " ", "'", "%", "\x1f"}

func randContent(r *rand.Rand) string {
	n := r.Intn(6)
	s := ""
	for i := 0; i < n; i++ {
		s += contentAlphabet[r.Intn(len(contentAlphabet))]
	}
	return s
}

func sameEvent(a, b *mocrelay.Event) bool {
	ta, tb := a.Tags, b.Tags
	if len(ta) == 0 && len(tb) == 0 {
		ta, tb = nil, nil
	}
	return a.ID == b.ID && a.Pubkey == b.Pubkey && a.CreatedAt == b.CreatedAt && a.Kind == b.Kind &&
		a.Content == b.Content && a.Sig == b.Sig && reflect.DeepEqual(ta, tb)
}

// checkFields: every returned event is identical in all seven fields to the inserted one.
func checkFields(run *core.Run, what string, inserted map[string]*mocrelay.Event, res []*mocrelay.Event) {
	for _, e := range res {
		want, ok := inserted[e.ID]
		if !ok {
			run.Violate(what+":returned-event-never-inserted", fmt.Sprintf("%+v", e), nil)
			continue
		}
		if !sameEvent(want, e) {
			run.Violate(what+":returned-event-differs-in-a-field", fmt.Sprintf("inserted %+v\nreturned %+v", want, e),
				map[string]any{"inserted": want, "returned": e})
		}
	}
}

type sqlKey struct {
	Rows []string   `json:"rows"`
	Tid  [][]string `json:"tid"`
	Tad  [][]string `json:"tad"`
}

func (k sqlKey) String() string {
	r := abs.SortedCopy(k.Rows)
	var t1, t2 []string
	for _, p := range k.Tid {
		t1 = append(t1, fmt.Sprint(p))
	}
	for _, p := range k.Tad {
		t2 = append(t2, fmt.Sprint(p))
	}
	sort.Strings(t1)
	sort.Strings(t2)
	return fmt.Sprint(r, t1, t2)
}

type sqlEdge struct {
	to   string
	live []string
}

// C06: SQLite store, every query equals the filter spec over stored live events.
func C06(run *core.Run) {
	distinct := core.NewDistinct()
	for _, cfg := range []string{"SqlMC.cfg", "SqlMC2.cfg"} {
		universe := map[string]abs.Event{}
		edges := map[string]map[string][]sqlEdge{}
		initKey := sqlKey{}.String()
		res, err := tlcrun.Run(tlcrun.Options{
			Module: "SqlMC", Config: cfg, Workers: 4, Timeout: 20 * time.Minute,
			OnJSON: func(line string) {
				var t struct {
					Universe []abs.Event `json:"universe"`
					S        sqlKey      `json:"s"`
					A        string      `json:"a"`
					T        sqlKey      `json:"t"`
					Live     []string    `json:"live"`
				}
				if err := json.Unmarshal([]byte(line), &t); err != nil {
					run.Problem("bad export line %v", err)
					return
				}
				if t.Universe != nil {
					for _, e := range t.Universe {
						universe[e.ID] = e
					}
					return
				}
				sk := t.S.String()
				if edges[sk] == nil {
					edges[sk] = map[string][]sqlEdge{}
				}
				edges[sk][t.A] = append(edges[sk][t.A], sqlEdge{t.T.String(), t.Live})
			},
		})
		if err != nil || !res.OK {
			tail := ""
			if res != nil {
				tail = res.Tail
			}
			run.Problem("TLC failed on SqlMC (%s): %v\n%s", cfg, err, tail)
			continue
		}
		run.Add("states", res.Distinct)
		run.Add("transitions", res.Generated)
		sqlGraphReplay(run, universe, edges, initKey, distinct, cfg == "SqlMC2.cfg")
	}
	sqlRandomHistories(run, distinct)
	run.Set("rule", "TLC enumerates SqlMC over two universes (13 events: regular, versions of one address, two authors, ephemeral, deletion requests by id / address / foreign / with relay hints / of a deletion request, two values of one tag name; 8 events: d values containing ':' and their neighbours with address deletions) and exports every transition with the live set; every edge is replayed on a real in-memory SQLite database (path as one batch or event by event) and its listing compared; probe queries (quick: after the edges of every second state; thorough: all) are judged by TLC (FindTrace). Seeded random batch histories (arbitrary Unicode content incl. NUL, <, astral; 3-element tags; duplicates; deletion before/after target; d values with ':') are validated against SqlTrace with the full listing after every batch and random filter lists incl. limit 0/1, empty lists, several #x conditions, overlapping filters. Every returned event is compared in all seven fields. distinct_nontrivial = distinct (state, event) edges replayed + distinct non-empty query answers")
	run.Set("evaluations", run.Get("replayed_transitions")+run.Get("trace_lines"))
	run.Set("distinct_nontrivial", distinct.Len())
	run.Assume = append(run.Assume, "64-bit event key collisions are assumed away", "addressable events without d tag are not generated (the property identifies addressable events by their d tag)",
		"created_at ties between versions of one address are left open", "address references are exercised on addressable events only")
}

func sqlGraphReplay(run *core.Run, universe map[string]abs.Event, edges map[string]map[string][]sqlEdge, initKey string, distinct *core.DistinctSet, allProbes bool) {
	st, err := openMemSQL()
	if err != nil {
		run.Problem("cannot open sqlite: %v", err)
		return
	}
	defer st.Close()
	conc := abs.NewConc()
	r := run.Rand("c06-graph")
	var labels []string
	for l := range universe {
		labels = append(labels, l)
	}
	sort.Strings(labels)
	real := map[string]*mocrelay.Event{}
	inserted := map[string]*mocrelay.Event{}
	var prelude []any
	for _, l := range labels {
		real[l] = conc.Event(universe[l], randContent(r))
		inserted[real[l].ID] = real[l]
		prelude = append(prelude, map[string]any{"op": "def", "e": universe[l]})
	}
	fu := filterUniverseSQL()
	paths := map[string][]string{initKey: {}}
	queue := []string{initKey}
	var findTraces []tv.Trace
	nstate := 0
	edgeNo := 0
	for len(queue) > 0 {
		sk := queue[0]
		queue = queue[1:]
		nstate++
		path := paths[sk]
		for _, a := range labels {
			es := edges[sk][a]
			if len(es) == 0 {
				continue
			}
			edgeNo++
			selfLoop := len(es) == 1 && es[0].to == sk
			probesHere := run.Thorough() || allProbes || (nstate+int(run.Seed))%2 == 0
			if err := st.Reset(); err != nil {
				run.Problem("reset: %v", err)
				return
			}
			// the path either as one batch or event by event
			var perr error
			if (nstate+len(a))%2 == 0 {
				var batch []*mocrelay.Event
				for _, p := range path {
					batch = append(batch, real[p])
				}
				if len(batch) > 0 {
					perr = st.Insert(batch)
				}
			} else {
				for _, p := range path {
					if err := st.Insert([]*mocrelay.Event{real[p]}); err != nil {
						perr = err
					}
				}
			}
			if perr == nil {
				perr = st.Insert([]*mocrelay.Event{real[a]})
			}
			if perr != nil {
				run.Violate("graph:insert-error", perr.Error(), map[string]any{"path": path, "add": a})
				continue
			}
			got, err := st.Query(matchAll)
			if err != nil {
				run.Violate("graph:query-error", err.Error(), map[string]any{"path": path, "add": a})
				continue
			}
			run.Add("replayed_transitions", 1)
			distinct.Add(sk + "|" + a)
			checkFields(run, "graph", inserted, got)
			gl := conc.Labels(got)
			ok := false
			var allowed [][]string
			for _, e := range es {
				allowed = append(allowed, e.live)
				if abs.KeyOf(e.live) == abs.KeyOf(gl) {
					ok = true
				}
			}
			sorted := true
			for i := 0; i+1 < len(got); i++ {
				if got[i].CreatedAt < got[i+1].CreatedAt {
					sorted = false
				}
			}
			if !ok || !sorted {
				before := []string{}
				if len(es) > 0 {
					// live set before = what the spec lists for the self-loop-free predecessor; recompute by replaying path only
					before = liveOf(st, conc, real, path)
				}
				run.Violate("graph:"+stepShape(before, gl, universe, universe[a], true),
					fmt.Sprintf("history %v then insert %s: match-everything query lists %v (sorted=%v); SqlStore allows %v", path, a, gl, sorted, allowed),
					map[string]any{"history": path, "insert": a, "events": universe})
				continue
			}
			// a few probe queries in this state, judged by TLC against the spec's live set
			tr := tv.Trace{Name: fmt.Sprintf("state after %v+%s", path, a)}
			nprobe := 2
			if !probesHere || (!run.Thorough() && selfLoop) {
				nprobe = 0 // quick tier: probe queries after the state-changing edges of every second state
			}
			for i := 0; i < nprobe; i++ {
				fs := []abs.Filter{fu[r.Intn(len(fu))]}
				if i == 1 && r.Intn(2) == 0 {
					fs = append(fs, fu[r.Intn(len(fu))])
				}
				qr, err := st.Query(conc.Filters(fs))
				if err != nil {
					run.Violate("graph:query-error "+tagNames(fs), err.Error(), map[string]any{"path": path, "add": a, "fs": fs})
					continue
				}
				checkFields(run, "graph", inserted, qr)
				rl := conc.Labels(qr)
				if len(rl) > 0 {
					distinct.Add(sk + "|" + a + "|" + fmt.Sprint(fs))
				}
				tr.Lines = append(tr.Lines, map[string]any{"op": "find", "S": gl, "fs": abs.NormFilters(fs), "res": rl, "shape": "find " + describeFilters(fs)})
			}
			findTraces = append(findTraces, tr)
			for _, e := range es {
				if _, seen := paths[e.to]; !seen {
					paths[e.to] = append(append([]string{}, path...), a)
					queue = append(queue, e.to)
				}
			}
		}
	}
	run.Add("replayed_states", int64(nstate))
	validateFindTraces(run, prelude, findTraces, "graph")
	// Themed random walks through the relation (as for the in-memory store): the breadth-first replay
	// reaches every model state by one history; rows that an earlier history left behind (tag rows of a
	// replaced or deleted event, tombstones) are state of the database besides what the model state
	// determines when something is wrong. Every step is judged by the relation, every event offered so
	// far is looked up through its keys (the answer must be listed), a sample of lines goes to FindTrace.
	walks := 150
	if run.Thorough() {
		walks = 2500
	}
	related := relatedLabels(labels, universe)
	keysOf := func(e abs.Event) [][]abs.Filter {
		out := [][]abs.Filter{{{IDs: abs.StrSet{P: true, S: []string{e.ID}}}},
			{{Authors: abs.StrSet{P: true, S: []string{e.Author}}, Kinds: abs.IntSet{P: true, S: []int64{e.Kind}}}}}
		for _, t := range e.Tags {
			if len(t.Name) == 1 && t.N >= 2 {
				out = append(out, []abs.Filter{{Tags: map[string][]string{t.Name: {t.Val}}}})
			}
		}
		return out
	}
	var walkTraces []tv.Trace
	for w := 0; w < walks && run.Violations() < 8; w++ {
		if err := st.Reset(); err != nil {
			run.Problem("reset: %v", err)
			return
		}
		pool := themedPool(r, labels, related)
		sk := initKey
		var hist []string
		offered := map[string]bool{}
		tr := tv.Trace{Name: fmt.Sprintf("sql-walk%d", w)}
		for step := 0; step < 12; step++ {
			a := pool[r.Intn(len(pool))]
			es := edges[sk][a]
			if len(es) == 0 {
				break // the exported relation has no such edge (state bound of the model)
			}
			if err := st.Insert([]*mocrelay.Event{real[a]}); err != nil {
				run.Violate("walk:insert-error", err.Error(), map[string]any{"history": hist, "insert": a})
				break
			}
			got, err := st.Query(matchAll)
			if err != nil {
				run.Violate("walk:query-error", err.Error(), map[string]any{"history": hist, "insert": a})
				break
			}
			run.Add("walk_steps", 1)
			gl := conc.Labels(got)
			next := ""
			var allowed [][]string
			for _, e := range es {
				allowed = append(allowed, e.live)
				if next == "" && abs.KeyOf(e.live) == abs.KeyOf(gl) {
					next = e.to
				}
			}
			if next == "" {
				run.Violate("walk:"+stepShape(nil, gl, universe, universe[a], true),
					fmt.Sprintf("history %v then insert %s: match-everything query lists %v; SqlStore allows %v", hist, a, gl, allowed),
					map[string]any{"history": hist, "insert": a, "events": universe})
				break
			}
			hist = append(hist, a)
			offered[a] = true
			sk = next
			in := map[string]bool{}
			for _, l := range gl {
				in[l] = true
			}
			for l := range offered {
				for _, fs := range keysOf(universe[l]) {
					qr, err := st.Query(conc.Filters(fs))
					if err != nil {
						run.Violate("walk:query-error "+tagNames(fs), err.Error(), map[string]any{"history": hist, "fs": fs})
						continue
					}
					run.Add("index_key_probes", 1)
					rl := conc.Labels(qr)
					for _, g := range rl {
						if !in[g] {
							run.Violate("walk:query returns an event that is not live "+describeFilters(fs),
								fmt.Sprintf("history %v: query %v returns %s, which the match-everything query %v does not list", hist, fs, g, gl),
								map[string]any{"history": hist, "fs": fs, "events": universe})
						}
					}
					if w%6 == 0 {
						tr.Lines = append(tr.Lines, map[string]any{"op": "find", "S": gl, "fs": abs.NormFilters(fs), "res": rl, "shape": "find " + describeFilters(fs)})
					}
				}
			}
		}
		if len(tr.Lines) > 0 {
			walkTraces = append(walkTraces, tr)
		}
	}
	validateFindTraces(run, prelude, walkTraces, "walk")
}

func liveOf(st *sqlStore, conc *abs.Conc, real map[string]*mocrelay.Event, path []string) []string {
	st.Reset()
	for _, p := range path {
		st.Insert([]*mocrelay.Event{real[p]})
	}
	got, _ := st.Query(matchAll)
	return conc.Labels(got)
}

func filterUniverseSQL() []abs.Filter {
	ids := []abs.StrSet{{}, {P: true, S: []string{}}, {P: true, S: []string{"r1"}}, {P: true, S: []string{"r1", "p2", "x2", "k1"}}}
	authors := []abs.StrSet{{}, {P: true, S: []string{"a"}}, {P: true, S: []string{"a", "b"}}}
	kinds := []abs.IntSet{{}, {P: true, S: []int64{1}}, {P: true, S: []int64{0, 30000}}, {P: true, S: []int64{5}}}
	tags := []map[string][]string{{}, {"t": {"x"}}, {"t": {"x", "y"}}, {"e": {"r1"}}, {"d": {"x"}}, {"d": {"u:v", "u"}}, {"a": {"30000:a:x"}}, {"a": {"30000:a:u:v"}}, {"t": {"x"}, "d": {"x", "y"}}, {"e": {"r1", "p2"}, "E": {"r1"}}, {"e": {"r1"}, "p": {"a"}, "E": {"r1"}}, {"t": {}}}
	times := [][2]abs.OptInt{{{}, {}}, {{P: true, V: 2}, {}}, {{}, {P: true, V: 2}}, {{P: true, V: 2}, {P: true, V: 3}}}
	limits := []abs.OptInt{{}, {P: true, V: 0}, {P: true, V: 1}, {P: true, V: 2}}
	var out []abs.Filter
	for _, i := range ids {
		for _, a := range authors {
			for _, k := range kinds {
				for _, t := range tags {
					for _, tm := range times {
						for _, l := range limits {
							out = append(out, abs.Filter{IDs: i, Authors: a, Kinds: k, Tags: t, Since: tm[0], Until: tm[1], Limit: l})
						}
					}
				}
			}
		}
	}
	return out
}

// sqlRandomHistories: seeded random batch histories validated against SqlTrace.
func sqlRandomHistories(run *core.Run, distinct *core.DistinctSet) {
	nt, nb := 25, 14
	if run.Thorough() {
		nt, nb = 240, 24
	}
	r := run.Rand("c06-hist")
	st, err := openMemSQL()
	if err != nil {
		run.Problem("cannot open sqlite: %v", err)
		return
	}
	defer st.Close()
	var traces []tv.Trace
	for t := 0; t < nt; t++ {
		conc := abs.NewConc()
		g := NewGen(r, fmt.Sprintf("q%d_", t))
		g.Extreme = t%3 == 1
		g.SQL = true
		st.Reset()
		inserted := map[string]*mocrelay.Event{}
		realOf := map[string]*mocrelay.Event{}
		tr := tv.Trace{Name: fmt.Sprintf("sqlhist-%d", t)}
		tr.Lines = append(tr.Lines, map[string]any{"op": "reset"})
		for b := 0; b < nb; b++ {
			size := 1 + r.Intn(4)
			var batch []*mocrelay.Event
			tr.Lines = append(tr.Lines, map[string]any{"op": "begin"})
			for i := 0; i < size; i++ {
				e := g.Offer()
				ce, ok := realOf[e.ID]
				if !ok {
					ce = conc.Event(e, randContent(r))
					realOf[e.ID] = ce
					inserted[ce.ID] = ce
				}
				batch = append(batch, ce)
				tr.Lines = append(tr.Lines, map[string]any{"op": "ins", "e": e, "shape": "ins " + cls(e.Kind)})
			}
			if err := st.Insert(batch); err != nil {
				run.Violate("trace:insert-error", err.Error(), map[string]any{"trace": tr.Lines})
				break
			}
			tr.Lines = append(tr.Lines, map[string]any{"op": "commit"})
			got, err := st.Query(matchAll)
			if err != nil {
				run.Violate("trace:query-error", err.Error(), map[string]any{"trace": tr.Lines})
				break
			}
			checkFields(run, "trace", inserted, got)
			tr.Lines = append(tr.Lines, map[string]any{"op": "list", "res": conc.Labels(got), "shape": "list after batch"})
			for j := 0; j < 3; j++ {
				fs := g.Filters()
				qr, err := st.Query(conc.Filters(fs))
				if err != nil {
					run.Violate("trace:query-error "+tagNames(fs), err.Error(), map[string]any{"fs": fs})
					continue
				}
				checkFields(run, "trace", inserted, qr)
				if len(qr) > 0 {
					distinct.Add(tr.Name + fmt.Sprint(b, j))
				}
				tr.Lines = append(tr.Lines, map[string]any{"op": "find", "fs": abs.NormFilters(fs), "res": conc.Labels(qr), "shape": "find " + describeFilters(fs)})
			}
		}
		traces = append(traces, tr)
	}
	out, err := tv.ValidateChunks(sqlTraceSpec, nil, traces, 6, 30, 8)
	if out != nil {
		run.Add("traces_validated_against_impl", int64(out.Accepted+len(out.Rejects)))
		run.Add("trace_lines", int64(out.Lines))
	}
	if err != nil {
		run.Problem("SqlTrace validation failed to run: %v", err)
		return
	}
	for _, rj := range out.Rejects {
		b, _ := json.Marshal(rj.Line)
		run.Violate("trace:"+lineShape(rj.Line), fmt.Sprintf("%s line %d is not explained by SqlStore: %s", rj.Trace.Name, rj.LineIdx, b),
			map[string]any{"trace": rj.Trace.Lines[:rj.LineIdx+1]})
	}
	if len(traces) > 0 {
		n := 8
		if len(traces[0].Lines) < n {
			n = len(traces[0].Lines)
		}
		run.Sample(map[string]any{"trace_prefix": traces[0].Lines[:n]})
		// canary: drop one event from a non-empty listing
		c := tv.Trace{Name: "canary"}
		done := false
		for _, l := range traces[0].Lines {
			m := l.(map[string]any)
			if !done && m["op"] == "list" && len(m["res"].([]string)) > 0 {
				cp := map[string]any{"op": "list", "res": m["res"].([]string)[1:]}
				c.Lines = append(c.Lines, cp)
				done = true
				continue
			}
			c.Lines = append(c.Lines, l)
		}
		if done {
			rej, err := tv.Rejects(sqlTraceSpec, nil, c)
			if err != nil {
				run.Problem("canary failed to run: %v", err)
			} else if !rej {
				run.Problem("canary (listing with one event dropped) accepted by SqlTrace")
			} else {
				run.Add("canaries_rejected", 1)
			}
		}
	}
}

func tagNames(fs []abs.Filter) string {
	m := map[string]bool{}
	for _, f := range fs {
		for n := range f.Tags {
			m["#"+n] = true
		}
	}
	var ns []string
	for n := range m {
		ns = append(ns, n)
	}
	sort.Strings(ns)
	return fmt.Sprint(ns)
}
