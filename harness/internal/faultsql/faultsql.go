// Package faultsql wraps the real mattn/go-sqlite3 driver with a
// database/sql/driver layer that counts the statements of a transaction
// (BeginTx, Prepare, Stmt.Exec, Commit) and fails the k-th one.
package faultsql

import (
	"context"
	"database/sql"
	"database/sql/driver"
	"errors"
	"sync"

	sqlite3 "github.com/mattn/go-sqlite3"
)

var ErrInjected = errors.New("verif: injected driver fault")

type Injector struct {
	mu     sync.Mutex
	armed  bool
	count  int
	failAt int
	Fired  bool
	Log    []string
}

func (in *Injector) Arm(failAt int) {
	in.mu.Lock()
	defer in.mu.Unlock()
	in.armed, in.count, in.failAt, in.Fired, in.Log = true, 0, failAt, false, nil
}

func (in *Injector) Disarm() (count int, log []string) {
	in.mu.Lock()
	defer in.mu.Unlock()
	in.armed = false
	return in.count, in.Log
}

func (in *Injector) step(kind string) error {
	in.mu.Lock()
	defer in.mu.Unlock()
	if !in.armed {
		return nil
	}
	in.count++
	in.Log = append(in.Log, kind)
	if in.count == in.failAt {
		in.Fired = true
		return ErrInjected
	}
	return nil
}

type connector struct {
	dsn string
	in  *Injector
}

func (c *connector) Connect(ctx context.Context) (driver.Conn, error) {
	inner, err := (&sqlite3.SQLiteDriver{}).Open(c.dsn)
	if err != nil {
		return nil, err
	}
	return &conn{inner: inner.(*sqlite3.SQLiteConn), in: c.in}, nil
}
func (c *connector) Driver() driver.Driver { return &sqlite3.SQLiteDriver{} }

// Open returns a *sql.DB over the real sqlite3 driver with fault injection.
func Open(dsn string, in *Injector) *sql.DB {
	db := sql.OpenDB(&connector{dsn: dsn, in: in})
	db.SetMaxOpenConns(1)
	return db
}

type conn struct {
	inner *sqlite3.SQLiteConn
	in    *Injector
}

func (c *conn) Prepare(q string) (driver.Stmt, error) { return c.PrepareContext(context.Background(), q) }
func (c *conn) PrepareContext(ctx context.Context, q string) (driver.Stmt, error) {
	if err := c.in.step("prepare"); err != nil {
		return nil, err
	}
	s, err := c.inner.PrepareContext(ctx, q)
	if err != nil {
		return nil, err
	}
	return &stmt{inner: s.(*sqlite3.SQLiteStmt), in: c.in}, nil
}
func (c *conn) Close() error              { return c.inner.Close() }
func (c *conn) Begin() (driver.Tx, error) { return c.BeginTx(context.Background(), driver.TxOptions{}) }
func (c *conn) BeginTx(ctx context.Context, o driver.TxOptions) (driver.Tx, error) {
	if err := c.in.step("begin"); err != nil {
		return nil, err
	}
	t, err := c.inner.BeginTx(ctx, o)
	if err != nil {
		return nil, err
	}
	return &tx{inner: t, in: c.in}, nil
}

// Statements issued outside a transaction (queries, DDL) go straight through
// and are not counted.
func (c *conn) ExecContext(ctx context.Context, q string, args []driver.NamedValue) (driver.Result, error) {
	return c.inner.ExecContext(ctx, q, args)
}
func (c *conn) QueryContext(ctx context.Context, q string, args []driver.NamedValue) (driver.Rows, error) {
	return c.inner.QueryContext(ctx, q, args)
}
func (c *conn) Ping(ctx context.Context) error { return c.inner.Ping(ctx) }

type tx struct {
	inner driver.Tx
	in    *Injector
}

func (t *tx) Commit() error {
	if err := t.in.step("commit"); err != nil {
		// a failed commit: the database rolls the transaction back
		t.inner.Rollback()
		return err
	}
	return t.inner.Commit()
}
func (t *tx) Rollback() error { return t.inner.Rollback() }

type stmt struct {
	inner *sqlite3.SQLiteStmt
	in    *Injector
}

func (s *stmt) Close() error  { return s.inner.Close() }
func (s *stmt) NumInput() int { return s.inner.NumInput() }
func (s *stmt) Exec(args []driver.Value) (driver.Result, error) {
	if err := s.in.step("exec"); err != nil {
		return nil, err
	}
	return s.inner.Exec(args)
}
func (s *stmt) Query(args []driver.Value) (driver.Rows, error) { return s.inner.Query(args) }
func (s *stmt) ExecContext(ctx context.Context, args []driver.NamedValue) (driver.Result, error) {
	if err := s.in.step("exec"); err != nil {
		return nil, err
	}
	return s.inner.ExecContext(ctx, args)
}
func (s *stmt) QueryContext(ctx context.Context, args []driver.NamedValue) (driver.Rows, error) {
	return s.inner.QueryContext(ctx, args)
}
