// Package core holds what every check shares: run context (tier, seed),
// evidence writing, known findings, violation reporting and exit codes.
package core

import (
	"encoding/json"
	"fmt"
	"math/rand"
	"os"
	"path/filepath"
	"sort"
	"strconv"
	"strings"
	"sync"
	"time"
)

// VerifDir is where evidence, replays and known-findings.json live (VERIF_DIR overrides it for
// development runs that must not disturb the registered tree).
var VerifDir = func() string {
	if d := os.Getenv("VERIF_DIR"); d != "" {
		return d
	}
	return "/verif"
}()

// Exit codes of a check.
const (
	ExitHeld         = 0
	ExitViolation    = 1
	ExitInconclusive = 2
)

type Run struct {
	ID    string
	Tier  string // quick | thorough
	Seed  int64
	Start time.Time
	Level string

	mu         sync.Mutex
	violations []Violation
	known      []string // KNOWN-FINDING lines printed
	problems   []string // inconclusive reasons
	Cov        map[string]any
	samples    []any
	Assume     []string
	findings   []Finding
	suppressed int
}

type Violation struct {
	Signature string
	Detail    string
	Replay    string
}

type Finding struct {
	Property  string `json:"property"`
	Status    string `json:"status"` // known | fixed
	Signature string `json:"signature"`
	What      string `json:"what"`
	Commit    string `json:"commit,omitempty"`
}

func NewRun(id string) *Run {
	tier := os.Getenv("VERIF_TIER")
	if tier != "thorough" {
		tier = "quick"
	}
	seed := int64(1)
	if s := os.Getenv("VERIF_SEED"); s != "" {
		if v, err := strconv.ParseInt(s, 10, 64); err == nil {
			seed = v
		}
	}
	r := &Run{ID: id, Tier: tier, Seed: seed, Start: time.Now(), Cov: map[string]any{}, Level: "model_checking"}
	r.loadFindings()
	return r
}

func (r *Run) Thorough() bool { return r.Tier == "thorough" }

// Rand returns a PRNG derived from the run seed and a purpose string.
func (r *Run) Rand(purpose string) *rand.Rand {
	h := int64(1469598103934665603)
	for _, c := range []byte(purpose) {
		h = (h ^ int64(c)) * 1099511628211
	}
	return rand.New(rand.NewSource(r.Seed*7919 + h))
}

func (r *Run) loadFindings() {
	b, err := os.ReadFile(filepath.Join(VerifDir, "known-findings.json"))
	if err != nil {
		return
	}
	var doc struct {
		Findings []Finding `json:"findings"`
	}
	if json.Unmarshal(b, &doc) == nil {
		r.findings = doc.Findings
	}
}

// Violate records behaviour of the real code that the specification forbids.
// signature identifies the abstract shape of the failing case; when a known
// finding with that signature is listed, it is reported as KNOWN-FINDING.
func (r *Run) Violate(signature, detail string, replay any) {
	r.mu.Lock()
	defer r.mu.Unlock()
	for _, f := range r.findings {
		if f.Property == r.ID && f.Status == "known" && f.Signature == signature {
			line := fmt.Sprintf("KNOWN-FINDING: property=%s %s (%s)", r.ID, f.What, signature)
			for _, k := range r.known {
				if k == line {
					return
				}
			}
			r.known = append(r.known, line)
			fmt.Println(line)
			return
		}
	}
	for _, v := range r.violations {
		if v.Signature == signature {
			return // one replay per signature
		}
	}
	if len(r.violations) >= 8 {
		r.suppressed++
		return
	}
	path := r.writeReplay(signature, detail, replay)
	r.violations = append(r.violations, Violation{signature, detail, path})
	fmt.Printf("VIOLATION property=%s replay=%s\n", r.ID, path)
	fmt.Printf("  signature: %s\n  detail: %s\n", signature, trunc(detail, 700))
}

func trunc(s string, n int) string {
	if len(s) > n {
		return s[:n] + "…"
	}
	return s
}

func (r *Run) writeReplay(signature, detail string, replay any) string {
	dir := filepath.Join(VerifDir, "replays", r.ID)
	os.MkdirAll(dir, 0o755)
	name := sanitize(signature)
	if len(name) > 80 {
		name = name[:80]
	}
	path := filepath.Join(dir, fmt.Sprintf("%s-seed%d.json", name, r.Seed))
	doc := map[string]any{"property": r.ID, "signature": signature, "detail": detail,
		"seed": r.Seed, "tier": r.Tier, "replay": replay}
	b, _ := json.MarshalIndent(doc, "", " ")
	os.WriteFile(path, b, 0o644)
	return path
}

func sanitize(s string) string {
	var b strings.Builder
	for _, c := range s {
		switch {
		case c >= 'a' && c <= 'z', c >= 'A' && c <= 'Z', c >= '0' && c <= '9', c == '-', c == '_':
			b.WriteRune(c)
		default:
			b.WriteByte('_')
		}
	}
	return b.String()
}

// Problem records a reason why the run is inconclusive (exit 2).
func (r *Run) Problem(format string, a ...any) {
	r.mu.Lock()
	defer r.mu.Unlock()
	msg := fmt.Sprintf(format, a...)
	r.problems = append(r.problems, msg)
	fmt.Printf("INCONCLUSIVE: %s\n", trunc(msg, 3000))
}

func (r *Run) Violations() int {
	r.mu.Lock()
	defer r.mu.Unlock()
	return len(r.violations)
}

// Add accumulates an integer coverage counter.
func (r *Run) Add(key string, n int64) {
	r.mu.Lock()
	defer r.mu.Unlock()
	cur, _ := r.Cov[key].(int64)
	r.Cov[key] = cur + n
}

func (r *Run) Set(key string, v any) {
	r.mu.Lock()
	defer r.mu.Unlock()
	r.Cov[key] = v
}

func (r *Run) Get(key string) int64 {
	r.mu.Lock()
	defer r.mu.Unlock()
	cur, _ := r.Cov[key].(int64)
	return cur
}

// Sample keeps up to 6 example cases for the evidence file.
func (r *Run) Sample(v any) {
	r.mu.Lock()
	defer r.mu.Unlock()
	if len(r.samples) < 6 {
		r.samples = append(r.samples, v)
	}
}

// Distinct counting helper.
type DistinctSet struct {
	mu sync.Mutex
	m  map[string]struct{}
}

func NewDistinct() *DistinctSet { return &DistinctSet{m: map[string]struct{}{}} }
func (d *DistinctSet) Add(k string) {
	d.mu.Lock()
	d.m[k] = struct{}{}
	d.mu.Unlock()
}
func (d *DistinctSet) Len() int64 { d.mu.Lock(); defer d.mu.Unlock(); return int64(len(d.m)) }

// Finish writes the evidence file and returns the exit code.
func (r *Run) Finish() int {
	r.mu.Lock()
	defer r.mu.Unlock()
	cov := map[string]any{}
	for k, v := range r.Cov {
		cov[k] = v
	}
	if len(r.samples) == 0 {
		r.samples = append(r.samples, "no sample recorded")
	}
	cov["samples"] = r.samples
	for _, k := range []string{"states", "transitions", "traces_validated_against_impl", "evaluations", "distinct_nontrivial"} {
		if _, ok := cov[k]; !ok {
			cov[k] = int64(0)
		}
	}
	if _, ok := cov["rule"]; !ok {
		cov["rule"] = ""
	}
	if len(r.problems) > 0 {
		cov["inconclusive"] = r.problems
	}
	var sigs []string
	for _, v := range r.violations {
		sigs = append(sigs, v.Signature)
	}
	sort.Strings(sigs)
	if len(sigs) > 0 {
		cov["violation_signatures"] = sigs
	}
	if len(r.known) > 0 {
		cov["known_findings_reobserved"] = r.known
	}
	doc := map[string]any{
		"property_id": r.ID,
		"tier":        r.Tier,
		"seed":        r.Seed,
		"level":       r.Level,
		"coverage":    cov,
		"assumptions": append([]string{}, r.Assume...),
		"wall_s":      time.Since(r.Start).Seconds(),
		"violations":  len(r.violations),
	}
	b, _ := json.MarshalIndent(doc, "", " ")
	evDir := "evidence"
	if !isPropertyID(r.ID) {
		evDir = "evidence-tools" // checks beyond the listed properties (not in MANIFEST.json)
	}
	os.MkdirAll(filepath.Join(VerifDir, evDir), 0o755)
	if err := os.WriteFile(filepath.Join(VerifDir, evDir, r.ID+".json"), b, 0o644); err != nil {
		fmt.Printf("INCONCLUSIVE: cannot write evidence: %v\n", err)
		return ExitInconclusive
	}
	switch {
	case len(r.violations) > 0:
		return ExitViolation
	case len(r.problems) > 0:
		return ExitInconclusive
	default:
		fmt.Printf("HELD property=%s tier=%s seed=%d wall=%.1fs\n", r.ID, r.Tier, r.Seed, time.Since(r.Start).Seconds())
		return ExitHeld
	}
}

// isPropertyID: C01 ... C99.
func isPropertyID(id string) bool {
	return len(id) == 3 && id[0] == 'C' && id[1] >= '0' && id[1] <= '9' && id[2] >= '0' && id[2] <= '9'
}
