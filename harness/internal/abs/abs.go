// Package abs is the concretiser / abstractor between the abstract values of
// the TLA+ specifications (event labels "e1", authors "a", address strings
// "30000:a:x") and real mocrelay values (64-hex ids, secp256k1 public keys,
// "30000:<pubkey>:x"). The mapping is injective and its inverse is checked on
// every value it produces; it never guesses state.
package abs

import (
	"crypto/sha256"
	"encoding/hex"
	"encoding/json"
	"fmt"
	"math"
	"sort"
	"strconv"
	"strings"
	"sync"

	"github.com/btcsuite/btcd/btcec/v2"
	"github.com/btcsuite/btcd/btcec/v2/schnorr"
	"github.com/high-moctane/mocrelay"
)

// TS maps abstract timestamps to concrete ones, order-preserving: the abstract values around
// +-1,000,000 stand for the two ends of the int64 range (TLC integers are 32 bit).
func TS(t int64) int64 {
	switch {
	case t >= 900000 && t <= 1000000:
		return math.MaxInt64 - (1000000 - t)
	case t <= -900000 && t >= -1000000:
		return math.MinInt64 + (t + 1000000)
	}
	return t
}

// AbsTS is the inverse of TS.
func AbsTS(c int64) int64 {
	switch {
	case c >= math.MaxInt64-100000:
		return 1000000 - (math.MaxInt64 - c)
	case c <= math.MinInt64+100000:
		return (c - math.MinInt64) - 1000000
	}
	return c
}

type Tag struct {
	Name string `json:"name"`
	Val  string `json:"val"`
	N    int    `json:"n"`
}

type Event struct {
	ID     string `json:"id"`
	Author string `json:"author"`
	Kind   int64  `json:"kind"`
	TS     int64  `json:"ts"`
	Tags   []Tag  `json:"tags"`
}

func (e Event) MarshalJSON() ([]byte, error) {
	type plain Event
	p := plain(e)
	if p.Tags == nil {
		p.Tags = []Tag{}
	}
	return json.Marshal(p)
}

type StrSet struct {
	P bool     `json:"p"`
	S []string `json:"s"`
}
type IntSet struct {
	P bool    `json:"p"`
	S []int64 `json:"s"`
}
type OptInt struct {
	P bool  `json:"p"`
	V int64 `json:"v"`
}

type Filter struct {
	IDs     StrSet              `json:"ids"`
	Authors StrSet              `json:"authors"`
	Kinds   IntSet              `json:"kinds"`
	Tags    map[string][]string `json:"tags"`
	Since   OptInt              `json:"since"`
	Until   OptInt              `json:"until"`
	Limit   OptInt              `json:"limit"`
}

// UnmarshalJSON accepts TLC's rendering, where an empty function is [].
func (f *Filter) UnmarshalJSON(b []byte) error {
	var raw struct {
		IDs     StrSet          `json:"ids"`
		Authors StrSet          `json:"authors"`
		Kinds   IntSet          `json:"kinds"`
		Tags    json.RawMessage `json:"tags"`
		Since   OptInt          `json:"since"`
		Until   OptInt          `json:"until"`
		Limit   OptInt          `json:"limit"`
	}
	if err := json.Unmarshal(b, &raw); err != nil {
		return err
	}
	*f = Filter{IDs: raw.IDs, Authors: raw.Authors, Kinds: raw.Kinds, Since: raw.Since, Until: raw.Until, Limit: raw.Limit, Tags: map[string][]string{}}
	if len(raw.Tags) > 0 && raw.Tags[0] == '{' {
		if err := json.Unmarshal(raw.Tags, &f.Tags); err != nil {
			return err
		}
	}
	return nil
}

// Norm makes the JSON form TLC-friendly (no null).
func (f Filter) Norm() Filter {
	if f.IDs.S == nil {
		f.IDs.S = []string{}
	}
	if f.Authors.S == nil {
		f.Authors.S = []string{}
	}
	if f.Kinds.S == nil {
		f.Kinds.S = []int64{}
	}
	if f.Tags == nil {
		f.Tags = map[string][]string{}
	}
	for k, v := range f.Tags {
		if v == nil {
			f.Tags[k] = []string{}
		}
	}
	return f
}

func NormFilters(fs []Filter) []Filter {
	out := make([]Filter, len(fs))
	for i, f := range fs {
		out[i] = f.Norm()
	}
	return out
}

// Key is a canonical string of a filter (for distinct counting).
func (f Filter) Key() string {
	b, _ := json.Marshal(f.Norm())
	return string(b)
}

// ---------------------------------------------------------------------------

type keyPair struct {
	priv *btcec.PrivateKey
	pub  string
}

// Conc maps abstract values to concrete ones and back.
type Conc struct {
	mu      sync.Mutex
	keys    map[string]*keyPair
	pubBack map[string]string
	idBack  map[string]string
	idFwd   map[string]string
}

func NewConc() *Conc {
	return &Conc{keys: map[string]*keyPair{}, pubBack: map[string]string{}, idBack: map[string]string{}, idFwd: map[string]string{}}
}

func (c *Conc) key(author string) *keyPair {
	c.mu.Lock()
	defer c.mu.Unlock()
	if k, ok := c.keys[author]; ok {
		return k
	}
	seed := sha256.Sum256([]byte("verif-sk:" + author))
	priv, pub := btcec.PrivKeyFromBytes(seed[:])
	kp := &keyPair{priv: priv, pub: hex.EncodeToString(schnorr.SerializePubKey(pub))}
	c.keys[author] = kp
	c.pubBack[kp.pub] = author
	return kp
}

// Pubkey returns the real x-only public key of an abstract author.
func (c *Conc) Pubkey(author string) string { return c.key(author).pub }

// Author is the inverse of Pubkey ("" when unknown).
func (c *Conc) Author(pub string) string {
	c.mu.Lock()
	defer c.mu.Unlock()
	return c.pubBack[pub]
}

// FakeID is the concrete id used for an event label when ids need not be
// authentic (stores do not verify): a 64-hex digest of the label.
func (c *Conc) FakeID(label string) string {
	c.mu.Lock()
	defer c.mu.Unlock()
	if id, ok := c.idFwd[label]; ok {
		return id
	}
	h := sha256.Sum256([]byte("verif-id:" + label))
	id := hex.EncodeToString(h[:])
	c.idFwd[label] = id
	c.idBack[id] = label
	return id
}

// BindID registers a real id for a label (authentic events).
func (c *Conc) BindID(label, id string) {
	c.mu.Lock()
	defer c.mu.Unlock()
	c.idFwd[label] = id
	c.idBack[id] = label
}

// Label is the inverse of FakeID / BindID ("?<id>" when unknown).
func (c *Conc) Label(id string) string {
	c.mu.Lock()
	defer c.mu.Unlock()
	if l, ok := c.idBack[id]; ok {
		return l
	}
	return "?" + id
}

// AddrValue concretises "kind:author:d" (d may contain ':').
func (c *Conc) AddrValue(v string) string {
	parts := strings.SplitN(v, ":", 3)
	if len(parts) != 3 {
		return v
	}
	return parts[0] + ":" + c.Pubkey(parts[1]) + ":" + parts[2]
}

func (c *Conc) tagValue(name, val string) string {
	if val == "" {
		return ""
	}
	switch name {
	case "e", "E":
		if strings.HasPrefix(val, "raw:") {
			return strings.TrimPrefix(val, "raw:") // a value that is not an event id at all (bech32, free text)
		}
		return c.FakeID(val)
	case "p", "P":
		return c.Pubkey(val)
	case "a", "A":
		return c.AddrValue(val)
	default:
		return val
	}
}

// Tags concretises a tag list.
func (c *Conc) Tags(ts []Tag) []mocrelay.Tag {
	out := make([]mocrelay.Tag, 0, len(ts))
	for _, t := range ts {
		switch {
		case t.N <= 1:
			out = append(out, mocrelay.Tag{t.Name})
		case t.N == 2:
			out = append(out, mocrelay.Tag{t.Name, c.tagValue(t.Name, t.Val)})
		default:
			tg := mocrelay.Tag{t.Name, c.tagValue(t.Name, t.Val)}
			for i := 2; i < t.N; i++ {
				tg = append(tg, "wss://relay.example/"+strconv.Itoa(i))
			}
			out = append(out, tg)
		}
	}
	return out
}

// Event concretises an abstract event with a fake (unauthenticated) id and a
// syntactically valid signature field. Content is free.
func (c *Conc) Event(e Event, content string) *mocrelay.Event {
	sigSeed := sha256.Sum256([]byte("verif-sig:" + e.ID))
	sig := hex.EncodeToString(sigSeed[:]) + hex.EncodeToString(sigSeed[:])
	return &mocrelay.Event{
		ID:        c.FakeID(e.ID),
		Pubkey:    c.Pubkey(e.Author),
		CreatedAt: TS(e.TS),
		Kind:      e.Kind,
		Tags:      c.Tags(e.Tags),
		Content:   content,
		Sig:       sig,
	}
}

// Canonical is the NIP-01 canonical serialisation, written independently of
// mocrelay (used for signing test events): only the mandated escapes.
func Canonical(pubkey string, createdAt, kind int64, tags []mocrelay.Tag, content string) []byte {
	var b strings.Builder
	b.WriteString(`[0,`)
	writeJSONString(&b, pubkey)
	b.WriteByte(',')
	b.WriteString(strconv.FormatInt(createdAt, 10))
	b.WriteByte(',')
	b.WriteString(strconv.FormatInt(kind, 10))
	b.WriteString(`,[`)
	for i, t := range tags {
		if i > 0 {
			b.WriteByte(',')
		}
		b.WriteByte('[')
		for j, s := range t {
			if j > 0 {
				b.WriteByte(',')
			}
			writeJSONString(&b, s)
		}
		b.WriteByte(']')
	}
	b.WriteString(`],`)
	writeJSONString(&b, content)
	b.WriteByte(']')
	return []byte(b.String())
}

func writeJSONString(b *strings.Builder, s string) {
	const hexd = "0123456789abcdef"
	b.WriteByte('"')
	for i := 0; i < len(s); i++ {
		ch := s[i]
		switch ch {
		case '"':
			b.WriteString(`\"`)
		case '\\':
			b.WriteString(`\\`)
		case '\n':
			b.WriteString(`\n`)
		case '\r':
			b.WriteString(`\r`)
		case '\t':
			b.WriteString(`\t`)
		case '\b':
			b.WriteString(`\b`)
		case '\f':
			b.WriteString(`\f`)
		default:
			if ch < 0x20 {
				b.WriteString(`\u00`)
				b.WriteByte(hexd[ch>>4])
				b.WriteByte(hexd[ch&0xf])
			} else {
				b.WriteByte(ch)
			}
		}
	}
	b.WriteByte('"')
}

// SignedEvent builds an authentic event: real id (SHA-256 of the canonical
// form computed here, not by mocrelay) and a real BIP-340 signature. The id
// is bound to the label.
func (c *Conc) SignedEvent(e Event, content string) *mocrelay.Event {
	kp := c.key(e.Author)
	tags := c.Tags(e.Tags)
	ser := Canonical(kp.pub, TS(e.TS), e.Kind, tags, content)
	h := sha256.Sum256(ser)
	sig, err := schnorr.Sign(kp.priv, h[:])
	if err != nil {
		panic(err)
	}
	id := hex.EncodeToString(h[:])
	c.BindID(e.ID, id)
	return &mocrelay.Event{
		ID: id, Pubkey: kp.pub, CreatedAt: TS(e.TS), Kind: e.Kind, Tags: tags, Content: content,
		Sig: hex.EncodeToString(sig.Serialize()),
	}
}

// SignRaw signs arbitrary concrete fields with the key of author.
func (c *Conc) SignRaw(author string, createdAt, kind int64, tags []mocrelay.Tag, content string) *mocrelay.Event {
	kp := c.key(author)
	if tags == nil {
		tags = []mocrelay.Tag{}
	}
	ser := Canonical(kp.pub, createdAt, kind, tags, content)
	h := sha256.Sum256(ser)
	sig, err := schnorr.Sign(kp.priv, h[:])
	if err != nil {
		panic(err)
	}
	return &mocrelay.Event{
		ID: hex.EncodeToString(h[:]), Pubkey: kp.pub, CreatedAt: createdAt, Kind: kind, Tags: tags, Content: content,
		Sig: hex.EncodeToString(sig.Serialize()),
	}
}

// SignOver signs an arbitrary serialisation of the given fields (a non-canonical form a lenient
// verifier might accept) with the key of author: id = sha256(ser), sig = a genuine signature of that id.
func (c *Conc) SignOver(author string, createdAt, kind int64, tags []mocrelay.Tag, content string, ser func(pub string) []byte) *mocrelay.Event {
	kp := c.key(author)
	if tags == nil {
		tags = []mocrelay.Tag{}
	}
	h := sha256.Sum256(ser(kp.pub))
	sig, err := schnorr.Sign(kp.priv, h[:])
	if err != nil {
		panic(err)
	}
	return &mocrelay.Event{
		ID: hex.EncodeToString(h[:]), Pubkey: kp.pub, CreatedAt: createdAt, Kind: kind, Tags: tags, Content: content,
		Sig: hex.EncodeToString(sig.Serialize()),
	}
}

// FilterJSON renders the concrete JSON text of an abstract filter.
func (c *Conc) FilterJSON(f Filter) []byte {
	obj := map[string]any{}
	if f.IDs.P {
		ids := make([]string, len(f.IDs.S))
		for i, l := range f.IDs.S {
			ids[i] = c.FakeID(l)
		}
		obj["ids"] = ids
	}
	if f.Authors.P {
		as := make([]string, len(f.Authors.S))
		for i, a := range f.Authors.S {
			as[i] = c.Pubkey(a)
		}
		obj["authors"] = as
	}
	if f.Kinds.P {
		ks := f.Kinds.S
		if ks == nil {
			ks = []int64{}
		}
		obj["kinds"] = ks
	}
	for n, vs := range f.Tags {
		cv := make([]string, len(vs))
		for i, v := range vs {
			cv[i] = c.tagValue(n, v)
		}
		obj["#"+n] = cv
	}
	if f.Since.P {
		obj["since"] = TS(f.Since.V)
	}
	if f.Until.P {
		obj["until"] = TS(f.Until.V)
	}
	if f.Limit.P {
		obj["limit"] = f.Limit.V
	}
	b, err := json.Marshal(obj)
	if err != nil {
		panic(err)
	}
	return b
}

// Filter concretises by decoding the JSON text with mocrelay's own decoder,
// so that only shapes reachable through the wire occur.
func (c *Conc) Filter(f Filter) *mocrelay.ReqFilter {
	rf := new(mocrelay.ReqFilter)
	if err := rf.UnmarshalJSON(c.FilterJSON(f)); err != nil {
		panic(fmt.Sprintf("concretised filter does not decode: %v: %s", err, c.FilterJSON(f)))
	}
	return rf
}

func (c *Conc) Filters(fs []Filter) []*mocrelay.ReqFilter {
	out := make([]*mocrelay.ReqFilter, len(fs))
	for i, f := range fs {
		out[i] = c.Filter(f)
	}
	return out
}

// Labels abstracts a result list to labels, in order.
func (c *Conc) Labels(evs []*mocrelay.Event) []string {
	out := make([]string, len(evs))
	for i, e := range evs {
		out[i] = c.Label(e.ID)
	}
	return out
}

func SortedCopy(s []string) []string {
	out := append([]string{}, s...)
	sort.Strings(out)
	return out
}

func KeyOf(ids []string) string { return strings.Join(SortedCopy(ids), ",") }
