package tlcrun

import (
	"bytes"
	"context"
	"fmt"
	"os"
	"os/exec"
	"path/filepath"
	"strings"
	"time"
)

// ApalacheResult of one bounded check (used for inductive invariants:
// --init=IndInit --inv=IndInv --length=1, and --init=Init --length=0).
type ApalacheResult struct {
	OK       bool // "The outcome is: NoError"
	Error    bool // the checker found a counterexample
	Tail     string
	TimedOut bool
}

// Apalache runs apalache-mc check on a module of the spec directory (optionally after a
// textual substitution, to produce a deliberately broken variant) in a scratch directory.
func Apalache(module, init, inv string, length int, subst [2]string, timeout time.Duration) (*ApalacheResult, error) {
	dir, err := os.MkdirTemp("", "verif-apalache-")
	if err != nil {
		return nil, err
	}
	defer os.RemoveAll(dir)
	src, err := os.ReadFile(filepath.Join(SpecDir, module+".tla"))
	if err != nil {
		return nil, err
	}
	text := string(src)
	if subst[0] != "" {
		if !strings.Contains(text, subst[0]) {
			return nil, fmt.Errorf("substitution source %q not found in %s", subst[0], module)
		}
		text = strings.Replace(text, subst[0], subst[1], 1)
	}
	if err := os.WriteFile(filepath.Join(dir, module+".tla"), []byte(text), 0o644); err != nil {
		return nil, err
	}
	ctx, cancel := context.WithTimeout(context.Background(), timeout)
	defer cancel()
	cmd := exec.CommandContext(ctx, "apalache-mc", "check", "--init="+init, "--inv="+inv, fmt.Sprintf("--length=%d", length),
		"--out-dir="+filepath.Join(dir, "out"), module+".tla")
	cmd.Dir = dir
	// Apalache's parser unpacks the standard modules into java.io.tmpdir: keep that inside the scratch directory
	cmd.Env = append(os.Environ(), "JAVA_IO_TMPDIR="+dir, "TMPDIR="+dir)
	var buf bytes.Buffer
	cmd.Stdout, cmd.Stderr = &buf, &buf
	runErr := cmd.Run()
	out := buf.String()
	res := &ApalacheResult{Tail: out}
	if len(res.Tail) > 3000 {
		res.Tail = res.Tail[len(res.Tail)-3000:]
	}
	if ctx.Err() != nil {
		res.TimedOut = true
		return res, fmt.Errorf("apalache timed out after %v", timeout)
	}
	switch {
	case strings.Contains(out, "The outcome is: NoError"):
		res.OK = true
	case strings.Contains(out, "The outcome is: Error"):
		res.Error = true
	default:
		return res, fmt.Errorf("apalache gave no verdict (%v)", runErr)
	}
	return res, nil
}
