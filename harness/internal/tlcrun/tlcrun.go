// Package tlcrun runs TLC on a specification of /verif/spec in a scratch
// directory (outside /repo and /verif), under a timeout, and parses what the
// harness needs from its output: statistics, exported JSON lines (PrintT of
// ToJson values), the verdict and the trace high-water mark.
package tlcrun

import (
	"bufio"
	"context"
	"errors"
	"fmt"
	"io"
	"os"
	"os/exec"
	"path/filepath"
	"regexp"
	"strconv"
	"strings"
	"time"
)

const (
	jarPath = "/opt/veriftools/tla/tla2tools.jar:/opt/veriftools/tla/CommunityModules-deps.jar"
)

// SpecDir is where the TLA+ modules live.
var SpecDir = func() string {
	if d := os.Getenv("VERIF_SPEC_DIR"); d != "" {
		return d
	}
	return "/verif/spec"
}()

type Options struct {
	Module   string            // module name, e.g. "StoreMC"
	Config   string            // cfg file name inside SpecDir, e.g. "StoreMC.cfg"
	Workers  int               // 0 => 1
	Timeout  time.Duration     // 0 => 10 min
	Files    map[string][]byte // extra files written into the scratch dir (traces)
	Simulate string            // e.g. "num=100" => -simulate num=100
	Depth    int               // -depth for simulation
	Seed     int64             // -seed (simulation) ; 0 => none
	DFS      bool              // use the StateDeque (depth-first) queue
	Coverage bool              // -coverage 1
	OnJSON   func(line string) // called for each exported JSON line (already unquoted)
	KeepOut  bool              // keep complete output in Result.Output
	Heap     string            // e.g. "8g"
	Consts   map[string]string // textual overrides: replaces "NAME = ..." lines in the cfg
}

type Result struct {
	Generated int64
	Distinct  int64
	Depth     int
	ExitCode  int
	TimedOut  bool
	Wall      float64
	JSONLines int64
	SimTraces int64
	// OK means TLC finished the run and reported no error.
	OK bool
	// PropertyViolated: TLC finished with an invariant / property / postcondition violation.
	PropertyViolated bool
	// HWM: last value printed as <<"HWM", n>> by a trace spec (-1 if none).
	HWM int64
	// Tail of the output for diagnostics.
	Tail   string
	Output string
	// CoverageZero lists "never enabled/taken" action lines when Coverage was requested.
	CoverageZero []string
	Cmd          string
}

var (
	reStats = regexp.MustCompile(`^(\d+) states generated, (\d+) distinct states found`)
	reDepth = regexp.MustCompile(`depth of the complete state graph search is (\d+)`)
	reHWM   = regexp.MustCompile(`<<"HWM", (\d+)>>`)
	reSim   = regexp.MustCompile(`The number of states generated: (\d+)`)
	reSimTr = regexp.MustCompile(`(\d+) states checked, (\d+) traces generated`)
	reCov0  = regexp.MustCompile(`^<(\w+) line .*>: 0:0`)
)

// Run executes TLC. An error is returned only when TLC could not be run at
// all; everything else is in Result.
func Run(o Options) (*Result, error) {
	if o.Workers <= 0 {
		o.Workers = 1
	}
	if o.Timeout <= 0 {
		o.Timeout = 10 * time.Minute
	}
	dir, err := os.MkdirTemp("", "verif-tlc-")
	if err != nil {
		return nil, err
	}
	if os.Getenv("VERIF_KEEP_TLC") == "" {
		defer os.RemoveAll(dir)
	}

	ents, err := os.ReadDir(SpecDir)
	if err != nil {
		return nil, err
	}
	for _, e := range ents {
		n := e.Name()
		if e.IsDir() || !(strings.HasSuffix(n, ".tla") || n == o.Config) {
			continue
		}
		b, err := os.ReadFile(filepath.Join(SpecDir, n))
		if err != nil {
			return nil, err
		}
		if n == o.Config && len(o.Consts) > 0 {
			b = overrideConsts(b, o.Consts)
		}
		if err := os.WriteFile(filepath.Join(dir, n), b, 0o644); err != nil {
			return nil, err
		}
	}
	for n, b := range o.Files {
		if err := os.WriteFile(filepath.Join(dir, n), b, 0o644); err != nil {
			return nil, err
		}
	}

	// (TLC leaves an empty tlc-* directory in java.io.tmpdir on every run: keep it inside the scratch directory)
	args := []string{"-XX:+UseParallelGC", "-Xss64m", "-Djava.io.tmpdir=" + dir}
	if o.Heap != "" {
		args = append(args, "-Xmx"+o.Heap)
	}
	if o.DFS {
		args = append(args, "-Dtlc2.tool.queue.IStateQueue=StateDeque")
	}
	args = append(args, "-cp", jarPath, "tlc2.TLC",
		"-workers", strconv.Itoa(o.Workers),
		"-metadir", filepath.Join(dir, "meta"),
		"-config", o.Config)
	if o.Simulate != "" {
		args = append(args, "-simulate", o.Simulate)
		if o.Depth > 0 {
			args = append(args, "-depth", strconv.Itoa(o.Depth))
		}
	}
	if o.Seed != 0 {
		args = append(args, "-seed", strconv.FormatInt(o.Seed, 10))
	}
	if o.Coverage {
		args = append(args, "-coverage", "1")
	}
	args = append(args, o.Module+".tla")

	ctx, cancel := context.WithTimeout(context.Background(), o.Timeout)
	defer cancel()
	cmd := exec.CommandContext(ctx, "java", args...)
	cmd.Dir = dir
	cmd.Env = append(os.Environ(), "JAVA_TOOL_OPTIONS=")
	stdout, err := cmd.StdoutPipe()
	if err != nil {
		return nil, err
	}
	cmd.Stderr = cmd.Stdout
	start := time.Now()
	if err := cmd.Start(); err != nil {
		return nil, err
	}
	res := &Result{HWM: -1, Cmd: "java " + strings.Join(args, " ")}
	var tail []string
	var full strings.Builder
	rd := bufio.NewReaderSize(stdout, 1<<20)
	for {
		line, err := rd.ReadString('\n')
		if len(line) > 0 {
			line = strings.TrimRight(line, "\r\n")
			if strings.HasPrefix(line, `"{`) || strings.HasPrefix(line, `"[`) {
				res.JSONLines++
				if o.OnJSON != nil {
					if s, uerr := unquoteTLA(line); uerr == nil {
						o.OnJSON(s)
					}
				}
			} else {
				if m := reStats.FindStringSubmatch(line); m != nil {
					res.Generated, _ = strconv.ParseInt(m[1], 10, 64)
					res.Distinct, _ = strconv.ParseInt(m[2], 10, 64)
				}
				if m := reSim.FindStringSubmatch(line); m != nil {
					res.Generated, _ = strconv.ParseInt(m[1], 10, 64)
					if res.Distinct == 0 {
						res.Distinct = res.Generated
					}
				}
				if m := reSimTr.FindStringSubmatch(line); m != nil {
					res.SimTraces, _ = strconv.ParseInt(m[2], 10, 64)
				}
				if m := reDepth.FindStringSubmatch(line); m != nil {
					res.Depth, _ = strconv.Atoi(m[1])
				}
				if m := reHWM.FindStringSubmatch(line); m != nil {
					res.HWM, _ = strconv.ParseInt(m[1], 10, 64)
				}
				if o.Coverage {
					if m := reCov0.FindStringSubmatch(line); m != nil {
						res.CoverageZero = append(res.CoverageZero, m[1])
					}
				}
				if len(line) < 2000 {
					tail = append(tail, line)
					if len(tail) > 60 {
						tail = tail[1:]
					}
				}
				if o.KeepOut && full.Len() < 8<<20 {
					full.WriteString(line)
					full.WriteByte('\n')
				}
			}
		}
		if err != nil {
			if !errors.Is(err, io.EOF) {
				tail = append(tail, "read error: "+err.Error())
			}
			break
		}
	}
	werr := cmd.Wait()
	res.Wall = time.Since(start).Seconds()
	res.Tail = strings.Join(tail, "\n")
	res.Output = full.String()
	if ctx.Err() != nil {
		res.TimedOut = true
	}
	if werr != nil {
		var ee *exec.ExitError
		if errors.As(werr, &ee) {
			res.ExitCode = ee.ExitCode()
		} else {
			res.ExitCode = -1
		}
	}
	res.OK = res.ExitCode == 0 && !res.TimedOut
	// TLC exit codes: 10 assumption, 11 deadlock, 12 safety, 13 liveness; a false
	// POSTCONDITION is reported with exit code 1 ... detect by text as well.
	if !res.TimedOut && (res.ExitCode == 12 || res.ExitCode == 13 ||
		strings.Contains(res.Tail, "is violated") ||
		strings.Contains(res.Tail, "Postcondition") && strings.Contains(res.Tail, "false")) {
		res.PropertyViolated = true
	}
	return res, nil
}

func overrideConsts(cfg []byte, consts map[string]string) []byte {
	lines := strings.Split(string(cfg), "\n")
	for i, l := range lines {
		t := strings.TrimSpace(l)
		for k, v := range consts {
			if strings.HasPrefix(t, k+" =") || strings.HasPrefix(t, k+"=") {
				lines[i] = "  " + k + " = " + v
			}
		}
	}
	return []byte(strings.Join(lines, "\n"))
}

// unquoteTLA turns the printed form of a TLA+ string value into its content.
func unquoteTLA(s string) (string, error) {
	if len(s) < 2 || s[0] != '"' || s[len(s)-1] != '"' {
		return "", fmt.Errorf("not a quoted string")
	}
	s = s[1 : len(s)-1]
	if !strings.Contains(s, `\`) {
		return s, nil
	}
	var b strings.Builder
	for i := 0; i < len(s); i++ {
		c := s[i]
		if c == '\\' && i+1 < len(s) {
			i++
			switch s[i] {
			case 'n':
				b.WriteByte('\n')
			case 't':
				b.WriteByte('\t')
			case 'r':
				b.WriteByte('\r')
			case 'f':
				b.WriteByte('\f')
			default:
				b.WriteByte(s[i])
			}
			continue
		}
		b.WriteByte(c)
	}
	return b.String(), nil
}
