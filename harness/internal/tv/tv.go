// Package tv validates recorded executions of the real code against a TLA+
// trace specification with TLC ("code -> spec" direction).
package tv

import (
	"bytes"
	"encoding/json"
	"fmt"
	"os"
	"time"

	"verif/harness/internal/tlcrun"
)

// Trace is one recorded execution: a sequence of JSON-able lines. Independent
// traces are concatenated for one TLC run; each starts with a line that
// resets the specification state (e.g. {"op":"reset",...}).
type Trace struct {
	Name  string
	Lines []any
	Meta  any
}

type Reject struct {
	TraceIdx int
	Trace    *Trace
	LineIdx  int // index into Trace.Lines of the first line no behaviour explains
	Line     any
}

type Outcome struct {
	Traces    int
	Lines     int
	Accepted  int
	Rejects   []Reject
	TLCStates int64
	TLCTrans  int64
	Runs      int
	Wall      float64
}

type Spec struct {
	Module  string
	Config  string
	DFS     bool
	Timeout time.Duration
	Heap    string
	noRetry bool
}

func encode(lines []any) ([]byte, error) {
	var buf bytes.Buffer
	enc := json.NewEncoder(&buf)
	enc.SetEscapeHTML(false)
	for _, l := range lines {
		if err := enc.Encode(l); err != nil {
			return nil, err
		}
	}
	return buf.Bytes(), nil
}

// Validate runs TLC over prelude + traces. A trace that is rejected is
// reported and validation continues with the traces after it. An error means
// the machinery failed (inconclusive), never that the code is wrong.
func Validate(sp Spec, prelude []any, traces []Trace, maxRejects int) (*Outcome, error) {
	out := &Outcome{Traces: len(traces)}
	if sp.Timeout == 0 {
		sp.Timeout = 10 * time.Minute
	}
	if sp.Heap == "" {
		sp.Heap = "4g" // trace validation keeps few states; a small heap leaves room for concurrent runs
	}
	start := 0
	t0 := time.Now()
	for start < len(traces) {
		var lines []any
		lines = append(lines, prelude...)
		// line number (1-based) -> trace idx
		type span struct{ from, to, idx int }
		var spans []span
		for i := start; i < len(traces); i++ {
			from := len(lines) + 1
			lines = append(lines, traces[i].Lines...)
			spans = append(spans, span{from, len(lines), i})
		}
		data, err := encode(lines)
		if err != nil {
			return out, err
		}
		res, err := tlcrun.Run(tlcrun.Options{
			Module: sp.Module, Config: sp.Config, Workers: 1, Timeout: sp.Timeout, DFS: sp.DFS, Heap: sp.Heap,
			Files: map[string][]byte{"trace.ndjson": data},
		})
		if err != nil {
			return out, err
		}
		out.Runs++
		out.Lines += len(lines) - len(prelude)
		out.TLCStates += res.Distinct
		out.TLCTrans += res.Generated
		if res.OK && res.HWM == int64(len(lines)+1) {
			out.Accepted += len(traces) - start
			break
		}
		if res.TimedOut {
			// one more attempt in smaller pieces (a loaded machine, or one pathological trace)
			rest := traces[start:]
			if sp.noRetry || len(rest) < 2 {
				return out, fmt.Errorf("TLC timed out validating traces (%s)", sp.Module)
			}
			sp2 := sp
			sp2.noRetry = true
			o2, err := ValidateChunks(sp2, prelude, rest, maxRejects-len(out.Rejects), (len(rest)+5)/6, 3)
			if o2 != nil {
				out.Lines += o2.Lines
				out.Accepted += o2.Accepted
				out.TLCStates += o2.TLCStates
				out.TLCTrans += o2.TLCTrans
				out.Runs += o2.Runs
				for _, rj := range o2.Rejects {
					rj.TraceIdx += start
					out.Rejects = append(out.Rejects, rj)
				}
			}
			out.Wall = time.Since(t0).Seconds()
			return out, err
		}
		if !res.PropertyViolated || res.HWM < 1 || res.HWM > int64(len(lines)) {
			return out, fmt.Errorf("TLC failed on trace spec %s (exit %d, hwm %d):\n%s", sp.Module, res.ExitCode, res.HWM, res.Tail)
		}
		hw := int(res.HWM)
		if hw <= len(prelude) {
			return out, fmt.Errorf("trace prelude line %d rejected by %s:\n%s", hw, sp.Module, res.Tail)
		}
		found := false
		for _, s := range spans {
			if hw >= s.from && hw <= s.to {
				tr := &traces[s.idx]
				li := hw - s.from
				out.Rejects = append(out.Rejects, Reject{TraceIdx: s.idx, Trace: tr, LineIdx: li, Line: tr.Lines[li]})
				out.Accepted += s.idx - start
				start = s.idx + 1
				found = true
				break
			}
		}
		if !found {
			return out, fmt.Errorf("cannot locate rejected line %d", hw)
		}
		if len(out.Rejects) >= maxRejects {
			break
		}
	}
	out.Wall = time.Since(t0).Seconds()
	return out, nil
}

// Rejects reports whether the trace spec rejects the given (corrupted) trace:
// the canary that demonstrates the binding is not vacuous.
func Rejects(sp Spec, prelude []any, tr Trace) (bool, error) {
	o, err := Validate(sp, prelude, []Trace{tr}, 1)
	if err != nil {
		return false, err
	}
	return len(o.Rejects) == 1, nil
}

// ValidateChunks splits the traces into chunks of at most chunk traces and
// validates up to par chunks concurrently (one TLC process each).
func ValidateChunks(sp Spec, prelude []any, traces []Trace, maxRejects, chunk, par int) (*Outcome, error) {
	if chunk <= 0 || len(traces) <= chunk {
		return Validate(sp, prelude, traces, maxRejects)
	}
	if par <= 0 {
		par = 1
	}
	if sp.Heap == "" {
		sp.Heap = "4g"
	}
	type res struct {
		o   *Outcome
		err error
	}
	var parts [][]Trace
	for i := 0; i < len(traces); i += chunk {
		j := i + chunk
		if j > len(traces) {
			j = len(traces)
		}
		parts = append(parts, traces[i:j])
	}
	results := make([]res, len(parts))
	sem := make(chan struct{}, par)
	done := make(chan int, len(parts))
	t0 := time.Now()
	for i := range parts {
		go func(i int) {
			sem <- struct{}{}
			t1 := time.Now()
			o, err := Validate(sp, prelude, parts[i], maxRejects)
			if os.Getenv("VERIF_DEBUG") != "" {
				n := 0
				for _, t := range parts[i] {
					n += len(t.Lines)
				}
				fmt.Fprintf(os.Stderr, "chunk %d (%s.., %d lines): %.1fs err=%v\n", i, parts[i][0].Name, n, time.Since(t1).Seconds(), err)
			}
			results[i] = res{o, err}
			<-sem
			done <- i
		}(i)
	}
	for range parts {
		<-done
	}
	out := &Outcome{Traces: len(traces)}
	var firstErr error
	off := 0
	for i, r := range results {
		if r.o != nil {
			out.Lines += r.o.Lines
			out.Accepted += r.o.Accepted
			out.TLCStates += r.o.TLCStates
			out.TLCTrans += r.o.TLCTrans
			out.Runs += r.o.Runs
			for _, rj := range r.o.Rejects {
				rj.TraceIdx += off
				if len(out.Rejects) < maxRejects {
					out.Rejects = append(out.Rejects, rj)
				}
			}
		}
		if r.err != nil && firstErr == nil {
			firstErr = r.err
		}
		off += len(parts[i])
	}
	out.Wall = time.Since(t0).Seconds()
	return out, firstErr
}
