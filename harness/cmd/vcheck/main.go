// vcheck <property id> runs the verification of one property against the
// mocrelay working tree this binary was built from. Exit 0 held, 1 violation,
// 2 inconclusive. VERIF_TIER=quick|thorough, VERIF_SEED=<int>.
package main

import (
	"bytes"
	"fmt"
	"io"
	"os"
	"os/exec"
	"regexp"
	"strings"
	"syscall"
	"time"

	"verif/harness/internal/checks"
	"verif/harness/internal/core"
)

// supervised properties run their workload in a child process: a crash of
// the code under test (fatal error: concurrent map writes, unrecovered panic
// in a goroutine of mocrelay, deadlock) must become a verdict, not a dead check.
var supervised = map[string]bool{"C13": true, "C15": true}

func main() {
	if len(os.Args) < 2 {
		fmt.Println("usage: vcheck <property-id>")
		os.Exit(2)
	}
	id := os.Args[1]
	f, ok := checks.Registry[id]
	if !ok {
		fmt.Printf("unknown property %s\n", id)
		os.Exit(2)
	}
	if supervised[id] && os.Getenv("VERIF_CHILD") == "" {
		os.Exit(supervise(id))
	}
	run := core.NewRun(id)
	func() {
		defer func() {
			if p := recover(); p != nil {
				run.Problem("check panicked: %v", p)
			}
		}()
		f(run)
	}()
	os.Exit(run.Finish())
}

var reFatal = regexp.MustCompile(`(?m)^(fatal error: .*|panic: .*)$`)

func supervise(id string) int {
	cmd := exec.Command(os.Args[0], id)
	cmd.Env = append(os.Environ(), "VERIF_CHILD=1")
	var buf bytes.Buffer
	cmd.Stdout = io.MultiWriter(os.Stdout, &buf)
	cmd.Stderr = &buf
	// a watchdog: a workload that does not finish is reported as inconclusive, never left hanging
	limit := 40 * time.Minute
	if os.Getenv("VERIF_TIER") == "thorough" {
		limit = 5 * time.Hour
	}
	err := cmd.Start()
	hung := false
	if err == nil {
		done := make(chan error, 1)
		go func() { done <- cmd.Wait() }()
		select {
		case err = <-done:
		case <-time.After(limit):
			hung = true
			cmd.Process.Signal(syscall.SIGQUIT)
			select {
			case err = <-done:
			case <-time.After(10 * time.Second):
				cmd.Process.Kill()
				err = <-done
			}
		}
	}
	if hung {
		run := core.NewRun(id)
		out := buf.String()
		if len(out) > 4000 {
			out = out[len(out)-4000:]
		}
		run.Problem("the workload process did not finish within %v and was stopped:\n%s", limit, out)
		return run.Finish()
	}
	code := 0
	if err != nil {
		code = -1
		if ee, ok := err.(*exec.ExitError); ok {
			code = ee.ExitCode()
		}
	}
	out := buf.String()
	if code == 0 || code == 1 || code == 2 {
		if m := reFatal.FindString(out); m == "" || code != 2 {
			return code
		}
	}
	// the child died
	run := core.NewRun(id)
	m := reFatal.FindString(out)
	inMocrelay := strings.Contains(out, "github.com/high-moctane/mocrelay")
	if m != "" && inMocrelay {
		tail := out
		if i := strings.Index(out, m); i >= 0 {
			tail = out[i:]
		}
		if len(tail) > 6000 {
			tail = tail[:6000]
		}
		run.Set("evaluations", int64(1))
		run.Set("distinct_nontrivial", int64(2))
		run.Set("rule", "the workload process crashed inside mocrelay; see the replay file")
		run.Violate("crash:"+m, tail, map[string]any{"output": tail})
	} else {
		if len(out) > 3000 {
			out = out[len(out)-3000:]
		}
		run.Problem("the workload process ended with exit code %d:\n%s", code, out)
	}
	return run.Finish()
}
