// vcheck <property id> runs the verification of one property against the
// mocrelay working tree this binary was built from. Exit 0 held, 1 violation,
// 2 inconclusive. VERIF_TIER=quick|thorough, VERIF_SEED=<int>.
package main

import (
	"fmt"
	"os"

	"verif/harness/internal/checks"
	"verif/harness/internal/core"
)

func main() {
	if len(os.Args) < 2 {
		fmt.Println("usage: vcheck <property-id>")
		os.Exit(2)
	}
	id := os.Args[1]
	f, ok := checks.Registry[id]
	if !ok {
		fmt.Printf("unknown property %s\n", id)
		os.Exit(2)
	}
	run := core.NewRun(id)
	func() {
		defer func() {
			if p := recover(); p != nil {
				run.Problem("check panicked: %v", p)
			}
		}()
		f(run)
	}()
	os.Exit(run.Finish())
}
