----------------------------- MODULE GateTrace -----------------------------
(***************************************************************************)
(* Validation of recorded WebSocket sessions against Gate.  One line per   *)
(* session:                                                                *)
(*   frames    : classes of the frames the client sent (in order)          *)
(*   toHandler : for each message the recording handler received, the      *)
(*               index of the frame it came from (0 = no such frame)       *)
(*   emitted   : number of messages the handler emitted                    *)
(*   toClient  : what the client received, each attributed to a handler    *)
(*               emission (src h, its number, only if it decodes to the    *)
(*               very message emitted), a rejection (src r) or neither (x) *)
(* The session is accepted iff Gate!GateOK holds of it.                    *)
(***************************************************************************)
EXTENDS TraceBase, FiniteSets

ValidClasses == {"event", "req", "close", "count", "auth"}
Valid(c)     == c \in ValidClasses
ValidIdx(fs)   == SelectSeq([i \in 1..Len(fs) |-> i], LAMBDA i : Valid(fs[i]))
InvalidIdx(fs) == SelectSeq([i \in 1..Len(fs) |-> i], LAMBDA i : ~Valid(fs[i]))
FromSrc(seq, src) == SelectSeq(seq, LAMBDA m : m.src = src)

GateOK(fs, th, nEmitted, tc) ==
  /\ th = ValidIdx(fs)
  /\ Len(FromSrc(tc, "r")) = Len(InvalidIdx(fs))
  /\ Len(FromSrc(tc, "x")) = 0
  /\ LET h == FromSrc(tc, "h") IN Len(h) = nEmitted /\ \A i \in 1..Len(h) : h[i].n = i

VARIABLE l
Init == l = 1 /\ HWMInit
Next == /\ l <= Len(Trace)
        /\ GateOK(Trace[l].frames, Trace[l].toHandler, Trace[l].emitted, Trace[l].toClient)
        /\ l' = l + 1
Spec == Init /\ [][Next]_l
See == HWMSee(l)
Accepted == HWMAccepted
=============================================================================
