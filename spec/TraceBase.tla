----------------------------- MODULE TraceBase -----------------------------
(***************************************************************************)
(* Common idiom of all trace specifications: the recorded execution is     *)
(* read from trace.ndjson (one JSON object per line, written by the Go     *)
(* harness), position l advances by one per consumed line, and the highest *)
(* position reached is kept in TLC register 1 (needs -workers 1), so that  *)
(* acceptance does not depend on silent steps or on branching.             *)
(***************************************************************************)
EXTENDS Integers, Sequences, TLC, Json

Trace == ndJsonDeserialize("trace.ndjson")

HWMInit == TLCSet(1, 0)
HWMSee(l) == TLCSet(1, IF TLCGet(1) < l THEN l ELSE TLCGet(1))
\* POSTCONDITION: every line was consumed by some behaviour
HWMAccepted == /\ PrintT(<<"HWM", TLCGet(1)>>)
               /\ TLCGet(1) = Len(Trace) + 1

SeqRange(s) == {s[i] : i \in DOMAIN s}
\* JSON filter -> filter of module Nostr (arrays become sets)
FilterOf(j) == [ids     |-> [p |-> j.ids.p,     s |-> SeqRange(j.ids.s)],
                authors |-> [p |-> j.authors.p, s |-> SeqRange(j.authors.s)],
                kinds   |-> [p |-> j.kinds.p,   s |-> SeqRange(j.kinds.s)],
                tags    |-> [n \in DOMAIN j.tags |-> SeqRange(j.tags[n])],
                since   |-> j.since, until |-> j.until, limit |-> j.limit]
FiltersOf(js) == [i \in DOMAIN js |-> FilterOf(js[i])]
=============================================================================
