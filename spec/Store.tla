------------------------------- MODULE Store -------------------------------
(***************************************************************************)
(* The in-memory event store (mocrelay.EventCache) as a sequential state   *)
(* machine over the set of retained events.  C03, C04, C05, C16.           *)
(*                                                                         *)
(* The deletion registry of the implementation is *derived* here: an       *)
(* event is blocked exactly as long as a deletion request of its author    *)
(* that references it is retained.                                         *)
(***************************************************************************)
EXTENDS Nostr

Blocked(S, e) == \E k \in S : Hits(k, e)
Olds(S, e)    == {x \in S : SameSlot(x, e)}
Oldest(S)     == {x \in S : \A y \in S : x.ts <= y.ts}

\* retained set after e was accepted into S (before capacity is enforced)
Base(S, e) == ((S \ Olds(S, e)) \cup {e}) \ {x \in S : Hits(e, x)}

\* One insertion: S --Add(e) / added--> T
AddRel(S, e, added, T, cap) ==
  IF Blocked(S, e) THEN ~added /\ T = S
  ELSE IF Class(e.kind) = "ephemeral" THEN added /\ T = S      \* accepted, never stored
  ELSE
     \/ /\ \E o \in Olds(S, e) : o.id = e.id \/ o.ts >= e.ts   \* duplicate / older / tie kept
        /\ ~added /\ T = S
     \/ /\ \A o \in Olds(S, e) : o.id # e.id /\ o.ts <= e.ts   \* new / newer / tie replaced
        /\ added
        /\ IF Cardinality(Base(S, e)) > cap
           THEN \E v \in Oldest(Base(S, e)) : T = Base(S, e) \ {v}
           ELSE T = Base(S, e)

---------------------------------------------------------------------------
(* Retention invariants (C04, C05) on a retained set *)

CapOK(S, cap)   == Cardinality(S) <= cap
IdsUnique(S)    == \A x, y \in S : x.id = y.id => x = y
OnePerAddr(S)   == \A x, y \in S : (Addr(x) # NoAddr /\ Addr(x) = Addr(y)) => x = y
NoEphemeral(S)  == \A x \in S : Class(x.kind) # "ephemeral"
NoneBlocked(S)  == \A x \in S : ~Blocked(S, x)
RetentionOK(S, cap) == CapOK(S, cap) /\ IdsUnique(S) /\ OnePerAddr(S)
                         /\ NoEphemeral(S) /\ NoneBlocked(S)

\* Why an event may leave (C04) and who may cause it (C05), for a step S -> T by e
LeavesOnlyBy(S, e, T) == \A x \in S \ T :
     \/ SameSlot(x, e) /\ x.ts <= e.ts /\ x.id # e.id          \* replaced by a newer version
     \/ Hits(e, x)                                               \* deleted by its author's request
     \/ x \in Oldest(S \cup {e})                                 \* capacity eviction
AuthorIsolation(S, e, T) == \A x \in S \ T : x.author = e.author \/ x \in Oldest(S \cup {e})
BlockIsolation(S, e)     == Blocked(S, e) => \E k \in S : k.author = e.author /\ Hits(k, e)

\* The reported flag (C04): new iff not suppressed, not a duplicate, not older than
\* the retained version of its address; on a created_at tie either answer.
FlagOK(S, e, added) ==
  LET dup   == \E o \in S : o.id = e.id
      older == \E o \in Olds(S, e) : o.ts > e.ts
      tie   == \E o \in Olds(S, e) : o.id # e.id /\ o.ts = e.ts
  IN /\ (Blocked(S, e) \/ dup \/ older) => ~added
     /\ (~Blocked(S, e) /\ ~dup /\ ~older /\ ~tie) => added

=============================================================================
