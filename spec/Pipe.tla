-------------------------------- MODULE Pipe --------------------------------
(***************************************************************************)
(* A transparent middleware stack seen from its two ends (beyond the       *)
(* listed properties, DESIGN section 11).  NewLoggingMiddleware, the        *)
(* Prometheus middleware and every limit middleware whose limit is         *)
(* respected are, in the words of NewSimpleMiddleware, the identity on     *)
(* both directions: what the client sends is what the wrapped handler      *)
(* receives, what the wrapped handler emits is what the client receives,   *)
(* each direction a FIFO channel of unknown (finite) capacity.             *)
(*                                                                         *)
(*   csend(m)  the client hands m to the stack   (stamped before the send) *)
(*   drecv(m)  the wrapped handler received m    (stamped after)           *)
(*   demit(m)  the wrapped handler emits m       (stamped before the send) *)
(*   cgot(m)   the client received m             (stamped after)           *)
(*   quiet     both ends idle long enough: nothing may be in flight        *)
(*                                                                         *)
(* The two directions are independent: the specification allows any        *)
(* interleaving between them, and demands nothing about their relative     *)
(* order.  A stack that drops, duplicates, alters, invents or reorders a   *)
(* message in one direction has no behaviour that explains the trace.      *)
(***************************************************************************)
EXTENDS Sequences, Naturals

PInit == [up |-> <<>>, down |-> <<>>]

CSend(p, m) == [p EXCEPT !.up = Append(@, m)]
CanDRecv(p, m) == p.up # <<>> /\ Head(p.up) = m
DRecv(p) == [p EXCEPT !.up = Tail(@)]

DEmit(p, m) == [p EXCEPT !.down = Append(@, m)]
CanCGot(p, m) == p.down # <<>> /\ Head(p.down) = m
CGot(p) == [p EXCEPT !.down = Tail(@)]

Quiet(p) == p.up = <<>> /\ p.down = <<>>
=============================================================================
