-------------------------------- MODULE Gate --------------------------------
(***************************************************************************)
(* C12: one WebSocket session of Relay.ServeHTTP.                          *)
(*   reader  : takes the client's frames one at a time; a frame that is a  *)
(*             valid (for EVENT: authentic) client message is handed to    *)
(*             the handler through the unbuffered recv channel, every      *)
(*             other frame is answered with exactly one rejection, written *)
(*             to the send channel by the reader itself                    *)
(*   handler : takes messages from recv, emits scripted server messages    *)
(*             into the same send channel                                  *)
(*   writer  : takes from send, writes one text frame to the client        *)
(* Reader and handler both write to send: their outputs interleave, each   *)
(* source keeps its own order.                                             *)
(***************************************************************************)
EXTENDS Integers, Sequences, FiniteSets, TLC, Json

CONSTANTS MaxFrames, MaxEmit, Export

ValidClasses   == {"event", "req", "close", "count", "auth"}
InvalidClasses == {"binary", "nonjson", "nonarray", "unknownlabel", "illtyped", "invalidfield", "forgedsig", "altered"}
FrameClasses   == ValidClasses \cup InvalidClasses
Valid(c)       == c \in ValidClasses

VARIABLES frames,      \* what the client sends (chosen at Init)
          rd,          \* frames gated so far
          recvCh,      \* <<>> or <<k>> : frame index in flight to the handler
          sendCh,      \* <<>> or <<m>> : message in flight to the writer
          toHandler,   \* frame indices the handler received
          emitLeft,    \* scripted emissions the handler still owes for the message in hand
          fromHandler, \* handler emissions so far (as numbers 1,2,..)
          rejections,  \* frame indices the reader rejected
          toClient,    \* what the client received: [src |-> "h", n] or [src |-> "r", k]
          rpc          \* reader: "read" | "fwd" | "rej"
vars == <<frames, rd, recvCh, sendCh, toHandler, emitLeft, fromHandler, rejections, toClient, rpc>>

FrameSeqs == UNION {[1..n -> FrameClasses] : n \in 0..MaxFrames}

Init == /\ frames \in FrameSeqs
        /\ rd = 0 /\ recvCh = <<>> /\ sendCh = <<>> /\ toHandler = <<>> /\ emitLeft = 0
        /\ fromHandler = 0 /\ rejections = <<>> /\ toClient = <<>> /\ rpc = "read"
        /\ (Export => PrintT(ToJson([frames |-> frames])))

\* reader
Read == /\ rpc = "read" /\ rd < Len(frames)
        /\ rd' = rd + 1
        /\ rpc' = (IF Valid(frames[rd + 1]) THEN "fwd" ELSE "rej")
        /\ UNCHANGED <<frames, recvCh, sendCh, toHandler, emitLeft, fromHandler, rejections, toClient>>
Forward == /\ rpc = "fwd" /\ recvCh = <<>>
           /\ recvCh' = <<rd>> /\ rpc' = "read"
           /\ UNCHANGED <<frames, rd, sendCh, toHandler, emitLeft, fromHandler, rejections, toClient>>
Reject == /\ rpc = "rej" /\ sendCh = <<>>
          /\ sendCh' = << [src |-> "r", n |-> rd] >> /\ rejections' = Append(rejections, rd) /\ rpc' = "read"
          /\ UNCHANGED <<frames, rd, recvCh, toHandler, emitLeft, fromHandler, toClient>>

\* handler
HTake == /\ recvCh # <<>> /\ emitLeft = 0
         /\ toHandler' = Append(toHandler, recvCh[1]) /\ recvCh' = <<>>
         /\ \E k \in 0..MaxEmit : emitLeft' = k
         /\ UNCHANGED <<frames, rd, sendCh, fromHandler, rejections, toClient, rpc>>
HEmit == /\ emitLeft > 0 /\ sendCh = <<>>
         /\ fromHandler' = fromHandler + 1 /\ emitLeft' = emitLeft - 1
         /\ sendCh' = << [src |-> "h", n |-> fromHandler + 1] >>
         /\ UNCHANGED <<frames, rd, recvCh, toHandler, rejections, toClient, rpc>>

\* writer
Write == /\ sendCh # <<>>
         /\ toClient' = Append(toClient, sendCh[1]) /\ sendCh' = <<>>
         /\ UNCHANGED <<frames, rd, recvCh, toHandler, emitLeft, fromHandler, rejections, rpc>>

Next == Read \/ Forward \/ Reject \/ HTake \/ HEmit \/ Write
Spec == Init /\ [][Next]_vars /\ WF_vars(Next)

---------------------------------------------------------------------------
ValidIdx(fs, upto) == SelectSeq([i \in 1..upto |-> i], LAMBDA i : Valid(fs[i]))
InvalidIdx(fs, upto) == SelectSeq([i \in 1..upto |-> i], LAMBDA i : ~Valid(fs[i]))
IsPrefix(s, t) == Len(s) <= Len(t) /\ \A i \in 1..Len(s) : s[i] = t[i]
FromSrc(seq, src) == SelectSeq(seq, LAMBDA m : m.src = src)

\* safety, at every moment
OnlyValidReachHandler == IsPrefix(toHandler, ValidIdx(frames, rd))
OneRejectionEach      == IsPrefix(rejections, InvalidIdx(frames, rd)) /\ Len(rejections) >= Len(InvalidIdx(frames, rd)) - 1
ClientSeesHandlerOrder == LET h == FromSrc(toClient, "h") IN
                            /\ Len(h) <= fromHandler /\ \A i \in 1..Len(h) : h[i].n = i
ClientSeesRejections   == LET r == FromSrc(toClient, "r") IN
                            IsPrefix([i \in 1..Len(r) |-> r[i].n], rejections)

\* the end-of-session relation that GateTrace evaluates on recorded sessions
GateOK(fs, th, nEmitted, tc) ==
  /\ th = ValidIdx(fs, Len(fs))                                   \* handler got exactly the valid frames, once, in order
  /\ Len(FromSrc(tc, "r")) = Len(InvalidIdx(fs, Len(fs)))          \* one rejection per other frame
  /\ LET h == FromSrc(tc, "h") IN Len(h) = nEmitted /\ \A i \in 1..Len(h) : h[i].n = i
Quiescent == rd = Len(frames) /\ rpc = "read" /\ recvCh = <<>> /\ sendCh = <<>> /\ emitLeft = 0
QuiescentOK == Quiescent => GateOK(frames, toHandler, fromHandler, toClient)
Progress == <>[]Quiescent        \* the session never gets stuck: every frame is gated, every message delivered
=============================================================================
