------------------------------- MODULE Session -------------------------------
(***************************************************************************)
(* C13: the goroutine / channel / context skeleton of a session.           *)
(* Every goroutine of the handlers and middlewares has the same shape: a   *)
(* loop that waits for a message (or the context), then hands it on to one *)
(* or more targets, each hand-off being a select with the context.  A      *)
(* composition is a graph of such stages:                                  *)
(*   Targets[p] : where stage p hands each message, in order; "client"     *)
(*                is the peer's send channel                               *)
(*   Sources    : stages the client's messages enter                       *)
(*   Queue[p]   : capacity of the buffered channel in front of p (0 = none)*)
(* Channels are unbuffered: a hand-off is a joint step of an offering      *)
(* stage and an idle receiver.  The session ends by cancelling the context *)
(* or by closing the inbound channel (the source stage returns and its     *)
(* deferred cancel fires); the peer either drains output or is stalled.    *)
(* BareSend is the set of stages that (wrongly) send without watching the  *)
(* context: with a stalled peer they never exit -- the witness that        *)
(* Termination is not vacuous.                                             *)
(***************************************************************************)
EXTENDS Integers, Sequences, FiniteSets, TLC

CONSTANTS Stages, Targets, Sources, MaxMsgs, Peer, Ending, BareSend

VARIABLES st,        \* st[p] \in {"idle", "hold", "done"}
          out,       \* out[p] : targets the message in hand still has to reach
          left,      \* messages the client may still send
          cancelled, closed, delivered
vars == <<st, out, left, cancelled, closed, delivered>>

Init == /\ st = [p \in Stages |-> "idle"] /\ out = [p \in Stages |-> <<>>]
        /\ left = MaxMsgs /\ cancelled = FALSE /\ closed = FALSE /\ delivered = 0

Take(p) == IF Targets[p] = <<>> THEN [st EXCEPT ![p] = "idle"] ELSE [st EXCEPT ![p] = "hold"]

ClientSend(p) == /\ p \in Sources /\ left > 0 /\ ~closed /\ ~cancelled /\ st[p] = "idle"
                 /\ left' = left - 1 /\ st' = Take(p) /\ out' = [out EXCEPT ![p] = Targets[p]]
                 /\ UNCHANGED <<cancelled, closed, delivered>>

\* stage p hands its message to stage q
Pass(p) == /\ st[p] = "hold" /\ out[p] # <<>> /\ Head(out[p]) # "client"
           /\ LET q == Head(out[p]) IN
              /\ st[q] = "idle"
              /\ st' = [Take(q) EXCEPT ![p] = IF Len(out[p]) = 1 THEN "idle" ELSE "hold"]
              /\ out' = [out EXCEPT ![p] = Tail(out[p]), ![q] = Targets[q]]
           /\ UNCHANGED <<left, cancelled, closed, delivered>>

\* stage p hands its message to the peer
Deliver(p) == /\ st[p] = "hold" /\ out[p] # <<>> /\ Head(out[p]) = "client" /\ Peer = "draining"
              /\ st' = [st EXCEPT ![p] = IF Len(out[p]) = 1 THEN "idle" ELSE "hold"]
              /\ out' = [out EXCEPT ![p] = Tail(out[p])]
              /\ delivered' = delivered + 1
              /\ UNCHANGED <<left, cancelled, closed>>

Cancel == /\ Ending = "cancel" /\ ~cancelled /\ cancelled' = TRUE /\ UNCHANGED <<st, out, left, closed, delivered>>
Close  == /\ Ending = "close" /\ ~closed /\ closed' = TRUE /\ UNCHANGED <<st, out, left, cancelled, delivered>>

\* the source sees the closed inbound channel, returns, and its deferred cancel fires
SourceReturns(p) == /\ p \in Sources /\ closed /\ st[p] = "idle"
                    /\ st' = [st EXCEPT ![p] = "done"] /\ cancelled' = TRUE
                    /\ UNCHANGED <<out, left, closed, delivered>>

Exit(p) == /\ cancelled /\ st[p] # "done"
           /\ (st[p] = "hold" => p \notin BareSend)
           /\ st' = [st EXCEPT ![p] = "done"] /\ out' = [out EXCEPT ![p] = <<>>]
           /\ UNCHANGED <<left, cancelled, closed, delivered>>

Next == Cancel \/ Close \/ \E p \in Stages : ClientSend(p) \/ Pass(p) \/ Deliver(p) \/ SourceReturns(p) \/ Exit(p)
Fairness == /\ \A p \in Stages : WF_vars(Exit(p)) /\ WF_vars(Pass(p)) /\ WF_vars(Deliver(p)) /\ WF_vars(SourceReturns(p))
Spec == Init /\ [][Next]_vars /\ Fairness

AllDone == \A p \in Stages : st[p] = "done"
Termination == (cancelled \/ closed) ~> AllDone
\* no stage waits on a dead stage for ever before the end: no deadlock while the session is alive and the peer drains
TypeOK == st \in [Stages -> {"idle", "hold", "done"}]
=============================================================================
