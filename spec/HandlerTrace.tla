---------------------------- MODULE HandlerTrace ----------------------------
(***************************************************************************)
(* C16: the reply protocol of the storage-backed handlers (CacheHandler    *)
(* and SQLiteHandler through SimpleHandler).  The recorded execution is    *)
(* the sequence of client messages (`in' lines) and, in the reset line,    *)
(* the complete sequence of server messages the client received (`outs').  *)
(* Replies must come in request order, so cursor o walks through outs      *)
(* while the inputs are consumed:                                          *)
(*   EVENT e   -> exactly one OK(e.id, accepted)                           *)
(*                cache : accepted iff newly stored (Store!AddRel), with   *)
(*                        the duplicate: prefix when that very event is    *)
(*                        retained ; sqlite : accepted, the event joins    *)
(*                        the insertion queue                              *)
(*   REQ s fs  -> EVENT(s, x)* for an answer of fs, then exactly one EOSE(s)*)
(*   COUNT s   -> exactly one COUNT(s)                                     *)
(*   CLOSE, AUTH -> nothing                                                *)
(* The SQLite handler inserts in the background: silent Flush steps move   *)
(* the head of the queue into the store (SqlStore!InsertOne).              *)
(***************************************************************************)
EXTENDS Store, SqlStore, TraceBase

VARIABLES l, o, mode, outs, retained, cap, st, queue
vars == <<l, o, mode, outs, retained, cap, st, queue>>

Ids(S) == {e.id : e \in S}
EvOf(S, i) == CHOOSE e \in S : e.id = i
Visible == IF mode = "cache" THEN retained ELSE Live(st)

Init == /\ l = 1 /\ o = 1 /\ mode = "cache" /\ outs = <<>> /\ retained = {} /\ cap = 1
        /\ st = SqlEmpty /\ queue = <<>> /\ HWMInit
Line == Trace[l]
Step(op) == l <= Len(Trace) /\ Line.op = op /\ l' = l + 1

TReset == /\ Step("reset")
          /\ o' = 1 /\ mode' = Line.mode /\ outs' = Line.outs /\ retained' = {} /\ cap' = Line.cap
          /\ st' = SqlEmpty /\ queue' = <<>>

TEvent == /\ Step("EVENT")
          /\ o <= Len(outs) /\ outs[o].t = "OK" /\ outs[o].id = Line.e.id
          /\ o' = o + 1
          /\ IF mode = "cache"
             THEN /\ AddRel(retained, Line.e, outs[o].acc, retained', cap)
                  /\ (Line.e.id \in Ids(retained)) => outs[o].dup
                  /\ UNCHANGED <<st, queue>>
             ELSE /\ outs[o].acc
                  /\ queue' = Append(queue, Line.e)
                  /\ UNCHANGED <<retained, st>>
          /\ UNCHANGED <<mode, outs, cap>>

\* index of the first EOSE at or after o
FirstEOSE == CHOOSE k \in o..Len(outs) : outs[k].t = "EOSE" /\ \A j \in o..(k - 1) : outs[j].t # "EOSE"
TReq == /\ Step("REQ")
        /\ \E k \in o..Len(outs) : outs[k].t = "EOSE"
        /\ LET k == FirstEOSE IN
           /\ outs[k].sub = Line.sub
           /\ \A j \in o..(k - 1) : outs[j].t = "EVENT" /\ outs[j].sub = Line.sub /\ outs[j].id \in Ids(Visible)
           /\ AnswerOK([j \in 1..(k - o) |-> EvOf(Visible, outs[o + j - 1].id)], Visible, FiltersOf(Line.fs))
           /\ o' = k + 1
        /\ UNCHANGED <<mode, outs, retained, cap, st, queue>>

TCount == /\ Step("COUNT")
          /\ o <= Len(outs) /\ outs[o].t = "COUNT" /\ outs[o].sub = Line.sub
          /\ o' = o + 1
          /\ UNCHANGED <<mode, outs, retained, cap, st, queue>>

TSilentIn == /\ (Step("CLOSE") \/ Step("AUTH"))
             /\ UNCHANGED <<o, mode, outs, retained, cap, st, queue>>

\* all output was explained
TEnd == /\ Step("end") /\ o = Len(outs) + 1
        /\ UNCHANGED <<o, mode, outs, retained, cap, st, queue>>

\* background insertion of the SQLite handler
Flush == /\ mode = "sqlite" /\ queue # <<>>
         /\ InsertOne(st, Head(queue), st')
         /\ queue' = Tail(queue)
         /\ UNCHANGED <<l, o, mode, outs, retained, cap>>

Next == TReset \/ TEvent \/ TReq \/ TCount \/ TSilentIn \/ TEnd \/ Flush
Spec == Init /\ [][Next]_vars
See == HWMSee(l)
Accepted == HWMAccepted
=============================================================================
