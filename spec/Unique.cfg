SPECIFICATION Spec
CONSTANTS
  MaxSize = 3
  Export = TRUE
INVARIANTS WindowInv
CHECK_DEADLOCK FALSE
