------------------------------- MODULE SqlMC -------------------------------
(***************************************************************************)
(* Exhaustive model of SqlStore over a small universe; exports every       *)
(* transition with the live set of the successor, replayed on a real       *)
(* SQLite database by the harness.                                         *)
(***************************************************************************)
EXTENDS SqlStore, Json
CONSTANTS Export, U

Tg(n, v)  == [name |-> n, val |-> v, n |-> 2]
Tg3(n, v) == [name |-> n, val |-> v, n |-> 3]
Ev(i, a, k, t, tg) == [id |-> i, author |-> a, kind |-> k, ts |-> t, tags |-> tg]

Universe1 == {
  Ev("r1", "a", 1, 1, <<Tg("t", "x")>>),
  Ev("x1", "a", 30000, 1, <<Tg("d", "x")>>), Ev("x2", "a", 30000, 2, <<Tg("d", "x"), Tg("t", "x")>>),
  Ev("x4", "b", 30000, 3, <<Tg("d", "x")>>),
  Ev("p1", "a", 0, 1, <<>>), Ev("p2", "a", 0, 3, <<>>),
  Ev("g1", "a", 20000, 5, <<>>),
  Ev("k1", "a", 5, 3, <<Tg("e", "raw:note1qqqsyqcyq5rqwzqf"), Tg("e", "r1")>>),   \* a value that is no event id, then a real reference
  Ev("k2", "a", 5, 2, <<Tg("a", "30000:a:x")>>),
  Ev("k3", "b", 5, 4, <<Tg("e", "r1"), Tg("a", "30000:a:x")>>),
  Ev("k6", "a", 5, 1, <<Tg3("e", "p2"), Tg3("a", "30000:b:x")>>),
  Ev("k7", "a", 5, 4, <<Tg("e", "k1")>>),
  Ev("r6", "b", 1, 2, <<Tg("t", "x"), Tg("t", "y"), Tg("p", "a")>>)   \* two values of one tag name
}

\* a second universe: d values containing ':' (a URL, a nested address) and their neighbours
Universe2 == {
  Ev("u1", "a", 30000, 1, <<Tg("d", "u:v")>>), Ev("u2", "a", 30000, 2, <<Tg("d", "u:v")>>),
  Ev("u3", "a", 30000, 1, <<Tg("d", "u")>>), Ev("u4", "a", 30000, 1, <<Tg("d", "u:v:w")>>),
  Ev("u5", "b", 30000, 1, <<Tg("d", "u:v")>>),
  Ev("j1", "a", 5, 3, <<Tg("a", "30000:a:u:v")>>),
  Ev("j2", "a", 5, 3, <<Tg("a", "30000:a:u")>>),
  Ev("j3", "a", 5, 4, <<Tg3("a", "30000:a:u:v:w"), Tg("e", "u3")>>)
}
Universe == IF U = 1 THEN Universe1 ELSE Universe2

VARIABLE st
Ids(S) == {e.id : e \in S}
Key(s) == [rows |-> Ids(s.rows), tid |-> s.tid, tad |-> s.tad]

Init == st = SqlEmpty /\ (Export => PrintT(ToJson([universe |-> Universe])))
Next == \E e \in Universe :
          /\ InsertOne(st, e, st')
          /\ (Export => PrintT(ToJson([s |-> Key(st), a |-> e.id, t |-> Key(st'), live |-> Ids(Live(st'))])))
Spec == Init /\ [][Next]_st

Inv == SqlInv(st)
TombstonesGrow == [][st.tid \subseteq st'.tid /\ st.tad \subseteq st'.tad]_st
\* idempotence of a single insertion (no created_at ties in this universe)
Idempotent == \A e \in Universe : \A s1 \in {s \in {Stored(st, e), st} : InsertOne(st, e, s)} :
                 InsertOne(s1, e, s1)
\* deletion is independent of arrival order: a live event never has a tombstone
LiveOK == \A x \in Live(st) : ~(\E k \in st.rows : Hits(k, x))
=============================================================================
