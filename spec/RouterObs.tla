------------------------------ MODULE RouterObs ------------------------------
(***************************************************************************)
(* Observation layer of the router (C07): the real-time delivery rule as a *)
(* monitor over the history H of what the clients of one RouterHandler     *)
(* observe, in one total order:                                            *)
(*   [t |-> "snd", c, m]  connection c offers client message m (before)    *)
(*   [t |-> "got", c, m]  connection c received server message m (after)   *)
(*   [t |-> "end", c, m]  connection c starts to go away (cancel)          *)
(*   [t |-> "stall", c, m] connection c stops reading for a while          *)
(* m : [k, sub, id, fs, ev]; every published event has a unique id.        *)
(*                                                                         *)
(* A subscription instance is (c, s, n) = the n-th REQ s of connection c.  *)
(*   R = its snd(REQ), E = its got(EOSE) (n-th EOSE s on c),               *)
(*   X = the first snd(CLOSE s) / snd(REQ s) / end(c) after R.             *)
(* A publication of event e is P = snd(EVENT e), O = got(OK e) on the      *)
(* publisher.  Judged by real-time order:                                  *)
(*   must  deliver : matches, E < P and X (if any) after O                 *)
(*   may   deliver : matches, [R, X] overlaps [P, O]                       *)
(*   must not      : otherwise                                             *)
(***************************************************************************)
EXTENDS Nostr

Is(e, t, k) == e.t = t /\ e.m.k = k
Inf == 1000000

\* positions
Reqs(H, c, s)  == {q \in DOMAIN H : Is(H[q], "snd", "REQ") /\ H[q].c = c /\ H[q].m.sub = s}
Eoses(H, c, s) == {q \in DOMAIN H : Is(H[q], "got", "EOSE") /\ H[q].c = c /\ H[q].m.sub = s}
Nth(S, n)      == CHOOSE q \in S : Cardinality({z \in S : z < q}) = n - 1
Rank(S, q)     == Cardinality({z \in S : z < q}) + 1

\* instance given by the position R of its REQ
EoseOf(H, R) == LET c == H[R].c   s == H[R].m.sub   n == Rank(Reqs(H, c, s), R)
                IN IF Cardinality(Eoses(H, c, s)) >= n THEN Nth(Eoses(H, c, s), n) ELSE Inf
ClosersOf(H, R) == LET c == H[R].c   s == H[R].m.sub IN
                   {q \in DOMAIN H : q > R /\ H[q].c = c /\
                        \/ (H[q].t = "snd" /\ H[q].m.k \in {"CLOSE", "REQ"} /\ H[q].m.sub = s)
                        \/ H[q].t = "end"}
CloseOf(H, R) == IF ClosersOf(H, R) = {} THEN Inf
                 ELSE CHOOSE q \in ClosersOf(H, R) : \A z \in ClosersOf(H, R) : q <= z

\* publication given by the position P of its EVENT
OkOf(H, P) == LET S == {q \in DOMAIN H : q > P /\ Is(H[q], "got", "OK") /\ H[q].c = H[P].c /\ H[q].m.id = H[P].m.id}
              IN IF S = {} THEN Inf ELSE CHOOSE q \in S : \A z \in S : q <= z
Pubs(H)    == {q \in DOMAIN H : Is(H[q], "snd", "EVENT")}
AllReqs(H) == {q \in DOMAIN H : Is(H[q], "snd", "REQ")}

\* The closing message X of an instance has certainly been processed by the router before
\* position P when the connection got, before P, the reply to a message it sent after X
\* (the session loop is sequential), or X is a re-REQ whose own EOSE arrived before P.
\* Until then a closing subscription may still receive events.
ProcessedBefore(H, X, P) ==
  /\ X < Inf
  /\ \/ (Is(H[X], "snd", "REQ") /\ EoseOf(H, X) < P)
     \/ \E q \in DOMAIN H : /\ X < q /\ q < P /\ H[q].c = H[X].c
                             /\ \/ (Is(H[q], "snd", "REQ") /\ EoseOf(H, q) < P)
                                \/ (Is(H[q], "snd", "EVENT") /\ OkOf(H, q) < P)

Match(H, R, P) == MatchesAny(H[P].m.ev, H[R].m.fs)
May(H, R, P)   == Match(H, R, P) /\ R < OkOf(H, P) /\ (CloseOf(H, R) > P \/ ~ProcessedBefore(H, CloseOf(H, R), P))
Must(H, R, P)  == Match(H, R, P) /\ EoseOf(H, R) < P /\ OkOf(H, P) < Inf /\ CloseOf(H, R) > OkOf(H, P)

\* deliveries of publication P to (c, s)
Deliveries(H, c, s, P) == {g \in DOMAIN H : Is(H[g], "got", "SEVENT") /\ H[g].c = c /\ H[g].m.sub = s /\ H[g].m.id = H[P].m.id}

GotEventOK(H, g) ==
  LET c == H[g].c   s == H[g].m.sub
      PS == {P \in Pubs(H) : P < g /\ H[P].m.id = H[g].m.id}
  IN /\ PS # {}                                                        \* somebody published it
     /\ \A P \in PS :
          /\ H[g].m.ev = H[P].m.ev                                     \* unchanged
          /\ \E R \in Reqs(H, c, s) : R < g /\ May(H, R, P)            \* an open, matching subscription with this label
          /\ Cardinality({d \in Deliveries(H, c, s, P) : d <= g}) = 1  \* once
     \* events of one publisher arrive in publication order
     /\ \A P \in PS : \A P2 \in Pubs(H) :
          (H[P2].c = H[P].c /\ OkOf(H, P) < P2) =>                     \* P2 was published after P was acknowledged
             ~ \E d \in Deliveries(H, c, s, P2) : d < g

GotOkOK(H, g) == /\ H[g].m.acc
                 /\ Cardinality({q \in 1..g : Is(H[q], "got", "OK") /\ H[q].c = H[g].c /\ H[q].m.id = H[g].m.id})
                      <= Cardinality({q \in 1..g : Is(H[q], "snd", "EVENT") /\ H[q].c = H[g].c /\ H[q].m.id = H[g].m.id})
GotEoseOK(H, g) == Cardinality({q \in Eoses(H, H[g].c, H[g].m.sub) : q <= g})
                     <= Cardinality({q \in Reqs(H, H[g].c, H[g].m.sub) : q < g})

StepOK(H) ==
  LET g == Len(H) IN
  (g > 0 /\ H[g].t = "got") =>
     CASE H[g].m.k = "SEVENT" -> GotEventOK(H, g)
       [] H[g].m.k = "OK"     -> GotOkOK(H, g)
       [] H[g].m.k = "EOSE"   -> GotEoseOK(H, g)
       [] OTHER               -> TRUE

\* The harness drains the queues with two marker events of kind DrainKind published one
\* after the other: when a connection has received the second one, everything queued
\* before it has arrived.  The markers themselves are exempt from completeness.
DrainKind == 9
\* a drained execution: every connection that did not end read everything that was queued for it
Ended(H, c)   == \E q \in DOMAIN H : H[q].t = "end" /\ H[q].c = c
Stalled(H, c) == \E q \in DOMAIN H : H[q].t = "stall" /\ H[q].c = c
QuiesceOK(H) ==
  /\ \A R \in AllReqs(H) : \A P \in Pubs(H) :
        (Must(H, R, P) /\ ~Ended(H, H[R].c) /\ ~Stalled(H, H[R].c) /\ H[P].m.ev.kind # DrainKind)
          => Deliveries(H, H[R].c, H[R].m.sub, P) # {}
  \* a publication is all-or-nothing: once Publish has started it visits every registered subscription,
  \* whatever happens to the publisher's connection meanwhile. A publication that was never acknowledged
  \* (its publisher went away) but reached some subscription reached every subscription that was confirmed
  \* before it and stayed open
  /\ \A R \in AllReqs(H) : \A P \in Pubs(H) :
        (/\ Match(H, R, P) /\ EoseOf(H, R) < P /\ OkOf(H, P) = Inf /\ CloseOf(H, R) = Inf
         /\ ~Stalled(H, H[R].c) /\ H[P].m.ev.kind # DrainKind
         /\ \E g \in DOMAIN H : Is(H[g], "got", "SEVENT") /\ H[g].m.id = H[P].m.id)
          => Deliveries(H, H[R].c, H[R].m.sub, P) # {}
  /\ \A R \in AllReqs(H) : ~Ended(H, H[R].c) => EoseOf(H, R) < Inf            \* every REQ answered by EOSE
  /\ \A P \in Pubs(H)    : ~Ended(H, H[P].c) => OkOf(H, P) < Inf              \* every EVENT by an accepting OK
=============================================================================
