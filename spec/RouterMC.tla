------------------------------ MODULE RouterMC ------------------------------
(***************************************************************************)
(* Mechanism layer of RouterHandler + subscribers + safeMap, shaped like   *)
(* the code, composed with the RouterObs monitor.                          *)
(*   session c main loop : takes one client message, performs it           *)
(*       REQ   -> Subscribe   (one step: the inner map's write lock)       *)
(*       CLOSE -> Unsubscribe                                              *)
(*       EVENT -> Publish: the outer read lock is held for the whole loop, *)
(*                connections are visited one at a time (PublishVisit);    *)
(*                a visit matches every subscription of that connection    *)
(*                and enqueues without blocking (drop when the queue is    *)
(*                full); REQ / CLOSE of other connections interleave       *)
(*       then hands the reply (EOSE / OK) to the client                    *)
(*   forwarder c : takes one queued live event, hands it to the client     *)
(*   End c       : cancel + UnsubscribeAll                                 *)
(* A client may stop reading (stalled): then neither the reply nor the     *)
(* forwarder can hand over, and the queue fills up -- other connections    *)
(* must still make progress.                                               *)
(***************************************************************************)
EXTENDS RouterObs

CONSTANTS K, Buf, MaxMsgs

Ev(i, k) == [id |-> i, author |-> "a", kind |-> k, ts |-> 1, tags |-> <<>>]
NoEv == Ev("-", 0)
Abs == [p |-> FALSE, s |-> {}]   NoI == [p |-> FALSE, v |-> 0]
Fil(ks) == << [ids |-> Abs, authors |-> Abs, kinds |-> ks, tags |-> <<>>, since |-> NoI, until |-> NoI, limit |-> NoI] >>
FAll == Fil(Abs)   FK1 == Fil([p |-> TRUE, s |-> {1}])

Mk(k, sub, id, acc, fs, ev) == [k |-> k, sub |-> sub, id |-> id, acc |-> acc, fs |-> fs, ev |-> ev]
MReq(s, fs) == Mk("REQ", s, "", FALSE, fs, NoEv)
MClose(s)   == Mk("CLOSE", s, "", FALSE, <<>>, NoEv)
MEvent(e)   == Mk("EVENT", "", e.id, FALSE, <<>>, e)
MEose(s)    == Mk("EOSE", s, "", FALSE, <<>>, NoEv)
MOk(id)     == Mk("OK", "", id, TRUE, <<>>, NoEv)
MSEvent(s, e) == Mk("SEVENT", s, e.id, FALSE, <<>>, e)

Conns == 1..K
VARIABLES nmsg,    \* messages each client has sent
          npub,    \* publications so far (unique event ids)
          inbox,   \* inbox[c] : <<>> or <<m>> being served by session c
          pub,     \* pub[c]   : <<>> or <<[e, left]>> : Publish of session c in progress, connections left to visit
          reply,   \* reply[c] : <<>> or <<m>> waiting to be handed to client c
          reg,     \* reg[c]   : sub -> filters
          q,       \* q[c]     : queued live events
          hand,    \* hand[c]  : <<>> or <<m>> in the forwarder's hand
          alive, reading, H
vars == <<nmsg, npub, inbox, pub, reply, reg, q, hand, alive, reading, H>>

Obs(t, c, m) == [t |-> t, c |-> c, m |-> m]
Put(f, k, v) == [x \in DOMAIN f \cup {k} |-> IF x = k THEN v ELSE f[x]]
Del(f, k)    == [x \in DOMAIN f \ {k} |-> f[x]]

Init == /\ nmsg = [c \in Conns |-> 0] /\ npub = 0 /\ inbox = [c \in Conns |-> <<>>] /\ pub = [c \in Conns |-> <<>>]
        /\ reply = [c \in Conns |-> <<>>] /\ reg = [c \in Conns |-> <<>>] /\ q = [c \in Conns |-> <<>>]
        /\ hand = [c \in Conns |-> <<>>] /\ alive = [c \in Conns |-> TRUE] /\ reading = [c \in Conns |-> TRUE] /\ H = <<>>

ClientSend(c) ==
  /\ alive[c] /\ inbox[c] = <<>> /\ reply[c] = <<>> /\ pub[c] = <<>> /\ nmsg[c] < MaxMsgs
  /\ \E m \in {MReq("s", FAll), MReq("s", FK1), MClose("s"), MEvent(Ev("new", 1)), MEvent(Ev("new", 2))} :
       LET m2 == IF m.k = "EVENT" THEN MEvent(Ev("p" \o ToString(npub + 1), m.ev.kind)) ELSE m IN
       /\ inbox' = [inbox EXCEPT ![c] = <<m2>>]
       /\ npub' = (IF m.k = "EVENT" THEN npub + 1 ELSE npub)
       /\ H' = Append(H, Obs("snd", c, m2))
  /\ nmsg' = [nmsg EXCEPT ![c] = @ + 1]
  /\ UNCHANGED <<pub, reply, reg, q, hand, alive, reading>>

\* REQ / CLOSE: one critical section, then the reply (CLOSE has none)
Serve(c) ==
  /\ alive[c] /\ inbox[c] # <<>> /\ pub[c] = <<>> /\ reply[c] = <<>>
  /\ LET m == inbox[c][1] IN
     CASE m.k = "REQ"   -> /\ reg' = [reg EXCEPT ![c] = Put(reg[c], m.sub, m.fs)]
                           /\ reply' = [reply EXCEPT ![c] = <<MEose(m.sub)>>]
                           /\ inbox' = [inbox EXCEPT ![c] = <<>>] /\ UNCHANGED pub
       [] m.k = "CLOSE" -> /\ reg' = [reg EXCEPT ![c] = Del(reg[c], m.sub)]
                           /\ inbox' = [inbox EXCEPT ![c] = <<>>] /\ UNCHANGED <<reply, pub>>
       [] OTHER         -> /\ pub' = [pub EXCEPT ![c] = << [e |-> m.ev, left |-> {d \in Conns : alive[d]}] >>]   \* PublishBegin
                           /\ UNCHANGED <<reg, reply, inbox>>
  /\ UNCHANGED <<nmsg, npub, q, hand, alive, reading, H>>

\* one connection visited under its inner read lock: every matching subscription, non-blocking enqueue
RECURSIVE Enq(_, _, _, _)
Enq(queue, subs, r, e) ==
  IF subs = {} THEN queue
  ELSE LET s == CHOOSE x \in subs : TRUE
           q2 == IF MatchesAny(e, r[s]) /\ Len(queue) < Buf THEN Append(queue, MSEvent(s, e)) ELSE queue
       IN Enq(q2, subs \ {s}, r, e)
PublishVisit(c) ==
  /\ pub[c] # <<>> /\ pub[c][1].left # {}
  /\ \E d \in pub[c][1].left :
       /\ q' = [q EXCEPT ![d] = IF alive[d] THEN Enq(q[d], DOMAIN reg[d], reg[d], pub[c][1].e) ELSE q[d]]
       /\ pub' = [pub EXCEPT ![c] = << [e |-> pub[c][1].e, left |-> pub[c][1].left \ {d}] >>]
  /\ UNCHANGED <<nmsg, npub, inbox, reply, reg, hand, alive, reading, H>>
PublishEnd(c) ==
  /\ pub[c] # <<>> /\ pub[c][1].left = {}
  /\ reply' = [reply EXCEPT ![c] = <<MOk(pub[c][1].e.id)>>]
  /\ pub' = [pub EXCEPT ![c] = <<>>] /\ inbox' = [inbox EXCEPT ![c] = <<>>]
  /\ UNCHANGED <<nmsg, npub, reg, q, hand, alive, reading, H>>

\* main loop and forwarder compete for the client's send channel
HandReply(c) == /\ alive[c] /\ reading[c] /\ reply[c] # <<>>
                /\ H' = Append(H, Obs("got", c, reply[c][1])) /\ reply' = [reply EXCEPT ![c] = <<>>]
                /\ UNCHANGED <<nmsg, npub, inbox, pub, reg, q, hand, alive, reading>>
FwdTake(c) == /\ alive[c] /\ hand[c] = <<>> /\ q[c] # <<>>
              /\ hand' = [hand EXCEPT ![c] = <<Head(q[c])>>] /\ q' = [q EXCEPT ![c] = Tail(q[c])]
              /\ UNCHANGED <<nmsg, npub, inbox, pub, reply, reg, alive, reading, H>>
FwdSend(c) == /\ alive[c] /\ reading[c] /\ hand[c] # <<>>
              /\ H' = Append(H, Obs("got", c, hand[c][1])) /\ hand' = [hand EXCEPT ![c] = <<>>]
              /\ UNCHANGED <<nmsg, npub, inbox, pub, reply, reg, q, alive, reading>>

Stall(c) == /\ alive[c] /\ reading[c] /\ c = 1 /\ reading' = [reading EXCEPT ![c] = FALSE]
            /\ H' = Append(H, Obs("stall", c, MClose("-")))
            /\ UNCHANGED <<nmsg, npub, inbox, pub, reply, reg, q, hand, alive>>
End(c) == /\ alive[c] /\ c = K /\ pub[c] = <<>>
          /\ alive' = [alive EXCEPT ![c] = FALSE] /\ reg' = [reg EXCEPT ![c] = <<>>]
          /\ inbox' = [inbox EXCEPT ![c] = <<>>] /\ reply' = [reply EXCEPT ![c] = <<>>]
          /\ H' = Append(H, Obs("end", c, MClose("-")))
          /\ UNCHANGED <<nmsg, npub, pub, q, hand, reading>>

Next == \E c \in Conns : ClientSend(c) \/ Serve(c) \/ PublishVisit(c) \/ PublishEnd(c) \/ HandReply(c)
                          \/ FwdTake(c) \/ FwdSend(c) \/ Stall(c) \/ End(c)
Spec == Init /\ [][Next]_vars

MonitorOK == StepOK(H)
QueueBound == \A c \in Conns : Len(q[c]) <= Buf
RegistryOfLive == \A c \in Conns : ~alive[c] => reg[c] = <<>>
Drained == \A c \in Conns : (alive[c] /\ reading[c]) => (inbox[c] = <<>> /\ pub[c] = <<>> /\ reply[c] = <<>> /\ q[c] = <<>> /\ hand[c] = <<>>)
\* back-pressure never reaches a publisher: a publication in progress can always continue
PublisherNotBlocked == \A c \in Conns : (pub[c] # <<>>) => (ENABLED PublishVisit(c) \/ ENABLED PublishEnd(c))
=============================================================================
