------------------------------ MODULE UniqueInd ------------------------------
(***************************************************************************)
(* The de-duplication window of Unique.tla for histories of ANY length     *)
(* (TLC explores 6 steps): WindowInv as an inductive invariant, proved by  *)
(* Apalache for every window size 1..5 over a 6-element id universe.       *)
(*   apalache-mc check --init=IndInit --inv=IndInv --length=1 UniqueInd.tla*)
(*   apalache-mc check --init=Init    --inv=IndInv --length=0 UniqueInd.tla*)
(***************************************************************************)
EXTENDS Integers, Sequences, FiniteSets, Apalache

Ids == {"x", "y", "z", "w", "u", "v"}
MaxSize == 5

VARIABLES
  \* @type: Seq(Str);
  win,
  \* @type: Set(Str);
  ever,
  \* @type: Int;
  size

\* @type: (Seq(Str)) => Set(Str);
SeqRange(s) == {s[i] : i \in DOMAIN s}
\* @type: (Seq(Str), Str) => Seq(Str);
Without(s, id) == SelectSeq(s, LAMBDA v : v # id)
\* @type: (Seq(Str), Int, Str) => Seq(Str);
Touch(w0, sz, id) == LET w == <<id>> \o Without(w0, id) IN SubSeq(w, 1, IF Len(w) < sz THEN Len(w) ELSE sz)

Init == win = <<>> /\ ever = {} /\ size \in 1..MaxSize
Next == \E id \in Ids :
          win' = Touch(win, size, id) /\ ever' = ever \cup {id} /\ size' = size

WindowInv == /\ Len(win) <= size
             /\ \A i, j \in DOMAIN win : i # j => win[i] # win[j]      \* pairwise distinct
             /\ SeqRange(win) \subseteq ever
TypeOK == /\ size \in 1..MaxSize
          /\ ever \in SUBSET Ids
          /\ \A i \in DOMAIN win : win[i] \in Ids
IndInv  == TypeOK /\ WindowInv
IndInit == win = Gen(MaxSize) /\ ever \in SUBSET Ids /\ size \in 1..MaxSize /\ IndInv
=============================================================================
