------------------------------ MODULE QuotaInd ------------------------------
(***************************************************************************)
(* The quota machine of Quota.tla for EVERY quota n >= 1 and every finite  *)
(* set of subscription ids drawn from an 8-element universe, proved by     *)
(* Apalache as an inductive invariant (TLC checks n <= MaxN only):         *)
(*   apalache-mc check --init=IndInit --inv=IndInv --length=1 QuotaInd.tla *)
(*   apalache-mc check --init=Init    --inv=IndInv --length=0 QuotaInd.tla *)
(***************************************************************************)
EXTENDS Integers, FiniteSets

Subs == {"a", "b", "c", "d", "e", "f", "g", "h"}

VARIABLES
  \* @type: Set(Str);
  open,
  \* @type: Int;
  n

ReqFwd(s)   == s \in open \/ Cardinality(open) < n
AfterReq(s) == IF ReqFwd(s) THEN open \cup {s} ELSE open

Init == open = {} /\ n \in Nat /\ n >= 1
Next == \E s \in Subs :
          \/ open' = AfterReq(s) /\ n' = n
          \/ open' = open /\ n' = n
          \/ open' = open \ {s} /\ n' = n

TypeOK   == open \in SUBSET Subs /\ n \in Nat /\ n >= 1
QuotaInv == Cardinality(open) <= n
IndInv   == TypeOK /\ QuotaInv
IndInit  == IndInv
=============================================================================
