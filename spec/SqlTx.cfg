SPECIFICATION Spec
CONSTANTS
  MaxBatch = 2
  MaxBatches = 2
  Export = TRUE
INVARIANTS Refines Idempotent TxInv
PROPERTIES Atomic
CHECK_DEADLOCK FALSE
