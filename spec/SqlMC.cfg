SPECIFICATION Spec
CONSTANTS
  Export = TRUE
INVARIANTS Inv Idempotent LiveOK
PROPERTIES TombstonesGrow
CHECK_DEADLOCK FALSE
