---------------------------- MODULE StatefulTrace ----------------------------
(***************************************************************************)
(* Trace validation of real sessions through the stateful middlewares      *)
(* (C18).  Lines:                                                          *)
(*   reset(kind, n)            kind = "quota" | "unique"                   *)
(*   quota : REQ(x, fwd) | CLOSE(x, fwd)                                   *)
(*   unique: ID(x, passed)     an event id crossing the filter             *)
(***************************************************************************)
EXTENDS TraceBase, FiniteSets
VARIABLES l, kind, n, open, win, ever
vars == <<l, kind, n, open, win, ever>>

Without(s, id) == SelectSeq(s, LAMBDA v : v # id)
Touch(w, size, id) == LET w2 == <<id>> \o Without(w, id) IN SubSeq(w2, 1, IF Len(w2) < size THEN Len(w2) ELSE size)

Init == l = 1 /\ kind = "quota" /\ n = 1 /\ open = {} /\ win = <<>> /\ ever = {} /\ HWMInit
Line == Trace[l]
Step(op) == l <= Len(Trace) /\ Line.op = op /\ l' = l + 1
TReset == Step("reset") /\ kind' = Line.kind /\ n' = Line.n /\ open' = {} /\ win' = <<>> /\ ever' = {}
TReq == /\ Step("REQ") /\ kind = "quota"
        /\ Line.fwd = (Line.x \in open \/ Cardinality(open) < n)
        /\ open' = (IF Line.fwd THEN open \cup {Line.x} ELSE open)
        /\ Cardinality(open') <= n
        /\ UNCHANGED <<kind, n, win, ever>>
TClose == /\ Step("CLOSE") /\ kind = "quota" /\ Line.fwd
          /\ open' = open \ {Line.x} /\ UNCHANGED <<kind, n, win, ever>>
TId == /\ Step("ID") /\ kind = "unique"
       /\ (Line.x \in SeqRange(win)) => ~Line.passed
       /\ (Line.x \notin ever) => Line.passed
       /\ win' = Touch(win, n, Line.x) /\ ever' = ever \cup {Line.x}
       /\ UNCHANGED <<kind, n, open>>
Next == TReset \/ TReq \/ TClose \/ TId
Spec == Init /\ [][Next]_vars
See == HWMSee(l)
Accepted == HWMAccepted
=============================================================================
