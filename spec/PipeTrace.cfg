SPECIFICATION Spec
CONSTRAINT See
POSTCONDITION Accepted
CHECK_DEADLOCK FALSE
