SPECIFICATION Spec
CONSTANTS
  Comp = "mw"
  MaxMsgs = 2
  Peer = "stalled"
  Ending = "cancel"
  Bare = FALSE
INVARIANTS TypeOK
PROPERTIES Termination
CHECK_DEADLOCK FALSE
