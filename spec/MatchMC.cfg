SPECIFICATION Spec
CONSTANTS
  Stride = 25
  Offset = 0
INVARIANTS EmptyListMatchesNothing
CHECK_DEADLOCK FALSE
