------------------------------ MODULE Matcher ------------------------------
(***************************************************************************)
(* The limit-counting matcher of a filter list (C02, second sentence):     *)
(* ReqFiltersEventLimitMatcher.  cnt[i] counts the events that matched     *)
(* filter i through LimitMatch -- every matching filter is advanced, there *)
(* is no short-circuit -- and the matcher is exhausted (Done) exactly when *)
(* every filter has a limit and has matched at least that many events.     *)
(***************************************************************************)
EXTENDS Nostr

CntInit(fs)        == [i \in DOMAIN fs |-> 0]
CntAfter(fs, c, e) == [i \in DOMAIN fs |-> c[i] + (IF Matches(e, fs[i]) THEN 1 ELSE 0)]
DoneOf(fs, c)      == \A i \in DOMAIN fs : fs[i].limit.p /\ c[i] >= fs[i].limit.v
=============================================================================
