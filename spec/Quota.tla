-------------------------------- MODULE Quota --------------------------------
(***************************************************************************)
(* C18, first half: the subscription quota (MaxSubscriptionsMiddleware).   *)
(* open = subscription ids currently counted.  With quota N                *)
(*   REQ s   : forwarded iff s is already open or fewer than N are open    *)
(*             (then s is open), otherwise answered CLOSED(s), not         *)
(*             forwarded, nothing changes                                  *)
(*   CLOSE s : forwarded, s is no longer open                              *)
(*   COUNT s : forwarded, nothing changes (a one-shot query)               *)
(* State is per connection.                                                *)
(***************************************************************************)
EXTENDS Integers, Sequences, FiniteSets, TLC, Json
CONSTANTS MaxN, Export
Subs == {"a", "b", "c", "d"}

ReqFwd(open, n, s)   == s \in open \/ Cardinality(open) < n
AfterReq(open, n, s) == IF ReqFwd(open, n, s) THEN open \cup {s} ELSE open
AfterClose(open, s)  == open \ {s}

VARIABLES open, n
Init == open = {} /\ n \in 1..MaxN
Next == \E s \in Subs :
          \/ /\ open' = AfterReq(open, n, s) /\ n' = n
             /\ (Export => PrintT(ToJson([n |-> n, s |-> open, a |-> "REQ", x |-> s, fwd |-> ReqFwd(open, n, s), t |-> open'])))
          \/ /\ open' = open /\ n' = n      \* a REQ that an outer limit of the chain (max_filters) refuses never reaches the quota
             /\ (Export => PrintT(ToJson([n |-> n, s |-> open, a |-> "REQX", x |-> s, fwd |-> FALSE, t |-> open'])))
          \/ /\ open' = open /\ n' = n      \* COUNT is a one-shot query: always forwarded, it opens nothing
             /\ (Export => PrintT(ToJson([n |-> n, s |-> open, a |-> "COUNT", x |-> s, fwd |-> TRUE, t |-> open'])))
          \/ /\ open' = AfterClose(open, s) /\ n' = n
             /\ (Export => PrintT(ToJson([n |-> n, s |-> open, a |-> "CLOSE", x |-> s, fwd |-> TRUE, t |-> open'])))
Spec == Init /\ [][Next]_<<open, n>>
QuotaInv == Cardinality(open) <= n
=============================================================================
