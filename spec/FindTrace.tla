----------------------------- MODULE FindTrace -----------------------------
(***************************************************************************)
(* C03 / C06 query oracle.  Every `find' line is judged on its own: the    *)
(* answer `res' must be an answer of the filter list `fs' over the set S   *)
(* that the match-everything query listed at that moment (AnswerOK of      *)
(* module Nostr).  `def' lines introduce the events that ids refer to.     *)
(***************************************************************************)
EXTENDS Nostr, TraceBase

VARIABLES l, evs      \* evs : id -> event
vars == <<l, evs>>

Init == l = 1 /\ evs = <<>> /\ HWMInit
Line == Trace[l]
Step(op) == l <= Len(Trace) /\ Line.op = op /\ l' = l + 1

TraceDef == /\ Step("def")
            /\ evs' = (Line.e.id :> Line.e) @@ evs

TraceFind == /\ Step("find")
             /\ SeqRange(Line.S) \subseteq DOMAIN evs
             /\ SeqRange(Line.res) \subseteq SeqRange(Line.S)
             /\ AnswerOK([i \in DOMAIN Line.res |-> evs[Line.res[i]]],
                         {evs[i] : i \in SeqRange(Line.S)}, FiltersOf(Line.fs))
             /\ UNCHANGED evs

Next == TraceDef \/ TraceFind
Spec == Init /\ [][Next]_vars
See == HWMSee(l)
Accepted == HWMAccepted
=============================================================================
