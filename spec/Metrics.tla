------------------------------- MODULE Metrics -------------------------------
(***************************************************************************)
(* C19: the Prometheus middleware.  It is transparent, and at quiescent    *)
(* points the exported values equal reality:                               *)
(*   connection gauge   = number of live sessions                          *)
(*   subscription gauge = subscriptions opened by REQ and not yet ended by *)
(*                        CLOSE, CLOSED or the end of their session        *)
(*   recv / send counters by message type, event counter by kind           *)
(***************************************************************************)
EXTENDS Integers, Sequences, FiniteSets, TLC

CTypes == {"EVENT", "REQ", "CLOSE", "AUTH", "COUNT"}
STypes == {"EOSE", "EVENT", "NOTICE", "OK", "AUTH", "COUNT", "CLOSED"}
Kinds  == {"k0", "k1", "k5", "k30000", "k1024", "k1025", "k31024"}

MInit == [live |-> {}, subs |-> <<>>,
          recv |-> [t \in CTypes |-> 0], send |-> [t \in STypes |-> 0], ev |-> [k \in Kinds |-> 0]]

Put(f, k, v) == [x \in DOMAIN f \cup {k} |-> IF x = k THEN v ELSE f[x]]
Del(f, k)    == [x \in DOMAIN f \ {k} |-> f[x]]

Start(st, s) == [st EXCEPT !.live = @ \cup {s}, !.subs = Put(st.subs, s, {})]
End(st, s)   == [st EXCEPT !.live = @ \ {s}, !.subs = Del(st.subs, s)]
CMsg(st, s, type, kind, sub) ==
  LET st1 == [st EXCEPT !.recv[type] = @ + 1]
      st2 == IF type = "EVENT" THEN [st1 EXCEPT !.ev[kind] = @ + 1] ELSE st1
  IN CASE type = "REQ"   -> [st2 EXCEPT !.subs[s] = @ \cup {sub}]
       [] type = "CLOSE" -> [st2 EXCEPT !.subs[s] = @ \ {sub}]
       [] OTHER          -> st2
SMsg(st, s, type, sub) ==
  LET st1 == [st EXCEPT !.send[type] = @ + 1]
  IN IF type = "CLOSED" THEN [st1 EXCEPT !.subs[s] = @ \ {sub}] ELSE st1

RECURSIVE SumCard(_, _)
SumCard(f, D) == IF D = {} THEN 0 ELSE LET d == CHOOSE x \in D : TRUE IN Cardinality(f[d]) + SumCard(f, D \ {d})
ConnGauge(st) == Cardinality(st.live)
ReqGauge(st)  == SumCard(st.subs, DOMAIN st.subs)
=============================================================================
