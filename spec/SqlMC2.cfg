SPECIFICATION Spec
CONSTANTS
  Export = TRUE
  U = 2
INVARIANTS Inv Idempotent LiveOK
PROPERTIES TombstonesGrow
CHECK_DEADLOCK FALSE
