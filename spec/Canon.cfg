SPECIFICATION Spec
CONSTANTS
  MaxLen = 2
  Export = TRUE
INVARIANTS TypeOK
CHECK_DEADLOCK FALSE
