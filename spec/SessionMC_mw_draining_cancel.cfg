SPECIFICATION Spec
CONSTANTS
  Comp = "mw"
  MaxMsgs = 2
  Peer = "draining"
  Ending = "cancel"
  Bare = FALSE
INVARIANTS TypeOK
PROPERTIES Termination
CHECK_DEADLOCK FALSE
