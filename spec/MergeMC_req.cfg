SPECIFICATION Spec
CONSTANTS
  N = 2
  MaxClient = 2
  Mode = "req"
INVARIANTS MonitorOK QuiesceInv StateInv NoLeak
CHECK_DEADLOCK FALSE
