SPECIFICATION Spec
CONSTANTS
  N = 2
  MaxClient = 2
  Mode = "req"
  Small = FALSE
INVARIANTS MonitorOK QuiesceInv StateInv NoLeak
CHECK_DEADLOCK FALSE
