SPECIFICATION Spec
CONSTANTS
  MaxCap = 3
  Export = FALSE
INVARIANTS TypeOK Inv DumpRestoreOK
PROPERTIES StepProp
VIEW View
CHECK_DEADLOCK FALSE
