----------------------------- MODULE StoreTrace -----------------------------
(***************************************************************************)
(* Trace validation of real EventCache executions against Store.           *)
(* Lines: reset(cap) | add(e, added, list) | find(fs, res) | len(n)        *)
(* `list' is the real Find([{}]) listing after the insertion: it pins the  *)
(* specification state at every step, so validation is linear and every    *)
(* retention invariant is evaluated at every prefix of every history.      *)
(***************************************************************************)
EXTENDS Store, TraceBase

VARIABLES l, retained, cap
vars == <<l, retained, cap>>

Ids(S) == {e.id : e \in S}
EvOf(S, i) == CHOOSE e \in S : e.id = i
SortedDesc(S, ids) == \A i \in 1..(Len(ids) - 1) : EvOf(S, ids[i]).ts >= EvOf(S, ids[i + 1]).ts

Init == l = 1 /\ retained = {} /\ cap = 1 /\ HWMInit

Line == Trace[l]
Step(op) == l <= Len(Trace) /\ Line.op = op /\ l' = l + 1

TraceReset == /\ Step("reset")
              /\ retained' = {} /\ cap' = Line.cap

TraceAdd == /\ Step("add")
            /\ AddRel(retained, Line.e, Line.added, retained', cap)
            /\ Ids(retained') = SeqRange(Line.list)
            /\ Len(Line.list) = Cardinality(retained')
            /\ SortedDesc(retained', Line.list)
            /\ cap' = cap

TraceFind == /\ Step("find")
             /\ SeqRange(Line.res) \subseteq Ids(retained)
             /\ AnswerOK([i \in DOMAIN Line.res |-> EvOf(retained, Line.res[i])],
                         retained, FiltersOf(Line.fs))
             /\ UNCHANGED <<retained, cap>>

TraceLen == /\ Step("len")
            /\ Line.n = Cardinality(retained)
            /\ UNCHANGED <<retained, cap>>

Next == TraceReset \/ TraceAdd \/ TraceFind \/ TraceLen
Spec == Init /\ [][Next]_vars

See == HWMSee(l)
Inv == RetentionOK(retained, cap)
Accepted == HWMAccepted
=============================================================================
