SPECIFICATION Spec
CONSTANTS
  MaxSteps = 7
INVARIANTS GaugesOK
CHECK_DEADLOCK FALSE
