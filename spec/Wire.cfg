SPECIFICATION Spec
CONSTANTS
  Pairs = FALSE
CHECK_DEADLOCK FALSE
