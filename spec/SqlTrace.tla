------------------------------ MODULE SqlTrace ------------------------------
(***************************************************************************)
(* Trace validation of real SQLite executions against SqlStore (C06, C14). *)
(* Lines                                                                   *)
(*   reset                fresh database                                   *)
(*   begin                a batch starts: the state is saved               *)
(*   ins(e)               one event of the batch                           *)
(*   commit               the batch succeeded                              *)
(*   rollback             the batch failed at some statement: the          *)
(*                        specification requires the saved state (C14)     *)
(*   same                 end of a re-insertion of an already inserted     *)
(*                        batch: the state must equal the saved one (C14)  *)
(*   reopen               close + reopen: nothing changes (C14)            *)
(*   list(res)            answer of the match-everything query             *)
(*   find(fs, res)        answer of a query                                *)
(***************************************************************************)
EXTENDS SqlStore, TraceBase

VARIABLES l, st, saved
vars == <<l, st, saved>>

Ids(S) == {e.id : e \in S}
EvOf(S, i) == CHOOSE e \in S : e.id = i

Init == l = 1 /\ st = SqlEmpty /\ saved = SqlEmpty /\ HWMInit
Line == Trace[l]
Step(op) == l <= Len(Trace) /\ Line.op = op /\ l' = l + 1

TReset    == Step("reset") /\ st' = SqlEmpty /\ saved' = SqlEmpty
TBegin    == Step("begin") /\ saved' = st /\ st' = st
TIns      == Step("ins") /\ InsertOne(st, Line.e, st') /\ saved' = saved
TCommit   == Step("commit") /\ UNCHANGED <<st, saved>>
TRollback == Step("rollback") /\ st' = saved /\ saved' = saved
TSame     == Step("same") /\ st = saved /\ UNCHANGED <<st, saved>>
TReopen   == Step("reopen") /\ UNCHANGED <<st, saved>>

AnswerFor(res, fs) ==
  /\ SeqRange(res) \subseteq Ids(Live(st))
  /\ AnswerOK([i \in DOMAIN res |-> EvOf(Live(st), res[i])], Live(st), fs)

TList == /\ Step("list")
         /\ Len(Line.res) = Cardinality(Live(st))
         /\ AnswerFor(Line.res, << [ids |-> [p |-> FALSE, s |-> {}], authors |-> [p |-> FALSE, s |-> {}],
                                      kinds |-> [p |-> FALSE, s |-> {}], tags |-> <<>>,
                                      since |-> [p |-> FALSE, v |-> 0], until |-> [p |-> FALSE, v |-> 0],
                                      limit |-> [p |-> FALSE, v |-> 0]] >>)
         /\ UNCHANGED <<st, saved>>
TFind == /\ Step("find")
         /\ AnswerFor(Line.res, FiltersOf(Line.fs))
         /\ UNCHANGED <<st, saved>>

Next == TReset \/ TBegin \/ TIns \/ TCommit \/ TRollback \/ TSame \/ TReopen \/ TList \/ TFind
Spec == Init /\ [][Next]_vars
See == HWMSee(l)
Accepted == HWMAccepted
=============================================================================
