SPECIFICATION Spec
CONSTANTS
  MaxLen = 3
  Export = TRUE
INVARIANTS DoneExact NoShortCircuit
PROPERTIES DoneMonotone
CHECK_DEADLOCK FALSE
