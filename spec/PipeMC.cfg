SPECIFICATION Spec
CONSTANTS
  Msgs = {"a", "b"}
  MaxLen = 3
INVARIANTS PrefixOK QuietOK InFlightOK
PROPERTY Drains
CHECK_DEADLOCK FALSE
