------------------------------ MODULE MergeMC ------------------------------
(***************************************************************************)
(* Mechanism layer of the merged handler (mergeHandlerSession), shaped     *)
(* like the code, composed with the MergeObs monitor.                      *)
(*   handleRecv : takes a client message, changes the session state        *)
(*                (SetSubID / ClearSubID / reply slots) and only then      *)
(*                broadcasts it to the children in index order             *)
(*   child i    : sequential; takes a message when it has emitted          *)
(*                everything it owes; scripts are nondeterministic         *)
(*   mergeSend i: moves one message of child i into hold[i] (preSendCh)    *)
(*   handleSend : takes one held message, runs the EOSE gate /             *)
(*                IsSendableEventMsg / OK and COUNT aggregation with per-  *)
(*                id queues of reply slots, and hands the result to the    *)
(*                client                                                   *)
(* TLC checks MergeObs!StepOK in every state (every prefix of every        *)
(* behaviour), QuiesceOK in drained states, and that the per-subscription  *)
(* state exists exactly while a REQ is neither EOSEd nor closed.           *)
(***************************************************************************)
EXTENDS MergeObs

CONSTANTS N, MaxClient, Mode, Small   \* Small: reduced child scripts, for the exhaustive configuration

Ev(i, k, t) == [id |-> i, author |-> "a", kind |-> k, ts |-> t, tags |-> <<>>]
X == Ev("x", 1, 2)   Y == Ev("y", 1, 1)   Z == Ev("z", 2, 3)
NoEv == Ev("-", 0, 0)
Abs == [p |-> FALSE, s |-> {}]   NoI == [p |-> FALSE, v |-> 0]
Fil(ks, lim) == [ids |-> Abs, authors |-> Abs, kinds |-> ks, tags |-> <<>>, since |-> NoI, until |-> NoI, limit |-> lim]
FA == << Fil(Abs, NoI) >>                                   \* everything
FB == << Fil([p |-> TRUE, s |-> {1}], [p |-> TRUE, v |-> 1]) >>   \* kind 1, limit 1

Msg(k, sub, id, ts, acc, txt, n, fs, ev) ==
  [k |-> k, sub |-> sub, id |-> id, ts |-> ts, acc |-> acc, txt |-> txt, n |-> n, fs |-> fs, ev |-> ev]
MReq(s, fs)   == Msg("REQ", s, "", 0, FALSE, "", 0, fs, NoEv)
MClose(s)     == Msg("CLOSE", s, "", 0, FALSE, "", 0, <<>>, NoEv)
MEvent(id)    == Msg("EVENT", "", id, 0, FALSE, "", 0, <<>>, NoEv)
MCount(s)     == Msg("COUNT", s, "", 0, FALSE, "", 0, <<>>, NoEv)
MEose(s)      == Msg("EOSE", s, "", 0, FALSE, "", 0, <<>>, NoEv)
MSEvent(s, e) == Msg("SEVENT", s, e.id, e.ts, FALSE, "", 0, <<>>, e)
MOk(id, a, t) == Msg("OK", "", id, 0, a, t, 0, <<>>, NoEv)
MSCount(s, n) == Msg("SCOUNT", s, "", 0, FALSE, "", n, <<>>, NoEv)

ClientAlphabet == IF Mode = "req" THEN {MReq("s", FA), MReq("s", FB), MClose("s")}
                  ELSE {MEvent("e1"), MCount("c1")}

\* what a child may answer
ReqScripts(s) == IF Small
                 THEN { <<MSEvent(s, X), MEose(s)>>,                   \* one stored event
                        <<MSEvent(s, Y), MSEvent(s, X), MEose(s)>>,    \* unsorted pair, X shared with the other script
                        <<MEose(s), MSEvent(s, Z)>> }                  \* EOSE then a live event
                 ELSE { <<MSEvent(s, X), MSEvent(s, Y), MEose(s)>>,       \* stored, sorted
                        <<MEose(s), MSEvent(s, Z)>>,                      \* EOSE then a live event
                        <<MSEvent(s, Y), MSEvent(s, X), MEose(s)>>,       \* unsorted
                        <<MSEvent(s, X), MSEvent(s, X), MSEvent(s, Z), MEose(s)>> }  \* duplicate + other kind
Scripts(i, m) ==
  CASE m.k = "REQ"   -> ReqScripts(m.sub)
    [] m.k = "EVENT" -> { <<MOk(m.id, TRUE, "")>>, <<MOk(m.id, FALSE, IF i = 1 THEN "blocked: one" ELSE "no")>> }
    [] m.k = "COUNT" -> { <<MSCount(m.sub, 0)>>, <<MSCount(m.sub, i)>> }
    [] OTHER         -> { <<>> }

VARIABLES nsent,    \* client messages sent so far
          awaiting, \* subscription ids whose EOSE the client has not received yet
          bcast,    \* <<>> or <<[m, next]>> : message being broadcast, next child to receive
          todo,     \* todo[i] : what child i still has to emit
          hold,     \* hold[i] : <<>> or <<msg>> taken from child i, waiting for handleSend
          req,      \* sub -> [eose : [1..N -> BOOLEAN], last, seen, cnt]   (per-subscription merge state)
          okq,      \* id  -> Seq([1..N -> msg or "nil"])
          cntq,     \* sub -> Seq([1..N -> n or -1])
          H         \* observation history for the monitor
vars == <<nsent, awaiting, bcast, todo, hold, req, okq, cntq, H>>

Obs(t, ch, m) == [t |-> t, ch |-> ch, m |-> m]
NilRow  == [i \in 1..N |-> <<>>]
NilCRow == [i \in 1..N |-> -1]

Init == /\ nsent = 0 /\ awaiting = {} /\ bcast = <<>> /\ todo = [i \in 1..N |-> <<>>]
        /\ hold = [i \in 1..N |-> <<>>] /\ req = <<>> /\ okq = <<>> /\ cntq = <<>> /\ H = <<>>

Has(f, k) == k \in DOMAIN f
Put(f, k, v) == [x \in DOMAIN f \cup {k} |-> IF x = k THEN v ELSE f[x]]
Del(f, k) == [x \in DOMAIN f \ {k} |-> f[x]]

\* handleRecv: state first, then broadcast
ClientSend ==
  /\ bcast = <<>> /\ nsent < MaxClient
  /\ \E m \in ClientAlphabet :
       /\ (m.k = "REQ") => m.sub \notin awaiting              \* the property's restriction on clients
       /\ nsent' = nsent + 1
       /\ awaiting' = (IF m.k = "REQ" THEN awaiting \cup {m.sub} ELSE awaiting)
       /\ H' = Append(H, Obs("csnd", 0, m))
       /\ req' = CASE m.k = "REQ"   -> Put(req, m.sub, [eose |-> [i \in 1..N |-> FALSE], last |-> -1, seen |-> {}, cnt |-> 0, fs |-> m.fs])
                   [] m.k = "CLOSE" -> Del(req, m.sub)
                   [] OTHER         -> req
       /\ okq' = (IF m.k = "EVENT" THEN Put(okq, m.id, (IF Has(okq, m.id) THEN okq[m.id] ELSE <<>>) \o <<NilRow>>) ELSE okq)
       /\ cntq' = (IF m.k = "COUNT" THEN Put(cntq, m.sub, (IF Has(cntq, m.sub) THEN cntq[m.sub] ELSE <<>>) \o <<NilCRow>>) ELSE cntq)
       /\ bcast' = << [m |-> m, next |-> 1] >>
  /\ UNCHANGED <<todo, hold>>

\* child `next' takes the broadcast message (it is sequential: only when it owes nothing)
ChildTake ==
  /\ bcast # <<>>
  /\ LET i == bcast[1].next   m == bcast[1].m IN
     /\ todo[i] = <<>>
     /\ \E sc \in Scripts(i, m) : todo' = [todo EXCEPT ![i] = sc]
     /\ H' = Append(H, Obs("chrecv", i, m))
     /\ bcast' = (IF i = N THEN <<>> ELSE << [m |-> m, next |-> i + 1] >>)
  /\ UNCHANGED <<nsent, awaiting, hold, req, okq, cntq>>

\* mergeSend i: child i's next message enters preSendCh
MergeTake(i) ==
  /\ todo[i] # <<>> /\ hold[i] = <<>>
  /\ hold' = [hold EXCEPT ![i] = << Head(todo[i]) >>]
  /\ todo' = [todo EXCEPT ![i] = Tail(todo[i])]
  /\ H' = Append(H, Obs("emits", i, Head(todo[i])))
  /\ UNCHANGED <<nsent, awaiting, bcast, req, okq, cntq>>

AllEose(r) == \A i \in 1..N : r.eose[i]

\* handleSend for one held message; out = <<>> (dropped) or <<msg>>
Deliver(out) == /\ H' = (IF out = <<>> THEN H ELSE Append(H, Obs("cgot", 0, out[1])))
                /\ awaiting' = (IF out # <<>> /\ out[1].k = "EOSE" THEN awaiting \ {out[1].sub} ELSE awaiting)

HandleSend(i) ==
  /\ hold[i] # <<>>
  /\ hold' = [hold EXCEPT ![i] = <<>>]
  /\ LET m == hold[i][1] IN
     CASE m.k = "EOSE" ->
            IF ~Has(req, m.sub) THEN Deliver(<<>>) /\ UNCHANGED <<req, okq, cntq>>
            ELSE LET r2 == [req[m.sub] EXCEPT !.eose[i] = TRUE] IN
                 IF AllEose(r2) THEN req' = Del(req, m.sub) /\ Deliver(<<m>>) /\ UNCHANGED <<okq, cntq>>
                 ELSE req' = Put(req, m.sub, r2) /\ Deliver(<<>>) /\ UNCHANGED <<okq, cntq>>
       [] m.k = "SEVENT" ->
            IF ~Has(req, m.sub) THEN Deliver(<<m>>) /\ UNCHANGED <<req, okq, cntq>>       \* live phase: forward
            ELSE LET r == req[m.sub] IN
                 IF r.eose[i] THEN Deliver(<<>>) /\ UNCHANGED <<req, okq, cntq>>          \* this child is past its EOSE
                 ELSE IF r.last # -1 /\ r.last < m.ts THEN Deliver(<<>>) /\ UNCHANGED <<req, okq, cntq>>   \* out of order
                 ELSE LET seen2 == IF r.last # -1 /\ r.last > m.ts THEN {} ELSE r.seen
                          r2 == [r EXCEPT !.last = m.ts, !.seen = seen2 \cup {m.id}]
                          lim == Len(r.fs) = 1 /\ r.fs[1].limit.p
                          done == \A j \in DOMAIN r.fs : r.fs[j].limit.p /\ r.cnt >= r.fs[j].limit.v
                      IN IF m.id \in seen2 THEN req' = Put(req, m.sub, [r EXCEPT !.last = m.ts, !.seen = seen2]) /\ Deliver(<<>>) /\ UNCHANGED <<okq, cntq>>
                         ELSE IF done \/ ~MatchesAny(m.ev, r.fs)
                              THEN req' = Put(req, m.sub, r2) /\ Deliver(<<>>) /\ UNCHANGED <<okq, cntq>>
                              ELSE req' = Put(req, m.sub, [r2 EXCEPT !.cnt = r.cnt + 1]) /\ Deliver(<<m>>) /\ UNCHANGED <<okq, cntq>>
       [] m.k = "OK" ->
            IF ~Has(okq, m.id) THEN Deliver(<<>>) /\ UNCHANGED <<req, okq, cntq>>
            ELSE LET q == okq[m.id]
                     idx == CHOOSE j \in 1..(Len(q) + 1) : (j = Len(q) + 1 \/ q[j][i] = <<>>) /\ \A z \in 1..(j - 1) : q[z][i] # <<>>
                 IN IF idx > Len(q) THEN Deliver(<<>>) /\ UNCHANGED <<req, okq, cntq>>
                    ELSE LET q2 == [q EXCEPT ![idx][i] = <<m>>]
                             row == q2[1]
                             full == \A j \in 1..N : row[j] # <<>>
                             rej == {j \in 1..N : ~row[j][1].acc}
                             first == CHOOSE j \in rej : \A z \in rej : j <= z
                             reply == IF rej = {} THEN MOk(m.id, TRUE, "")
                                      ELSE MOk(m.id, FALSE, row[first][1].txt)
                         IN IF full
                            THEN /\ okq' = (IF Len(q2) = 1 THEN Del(okq, m.id) ELSE Put(okq, m.id, Tail(q2)))
                                 /\ Deliver(<<reply>>) /\ UNCHANGED <<req, cntq>>
                            ELSE okq' = Put(okq, m.id, q2) /\ Deliver(<<>>) /\ UNCHANGED <<req, cntq>>
       [] m.k = "SCOUNT" ->
            IF ~Has(cntq, m.sub) THEN Deliver(<<>>) /\ UNCHANGED <<req, okq, cntq>>
            ELSE LET q == cntq[m.sub]
                     idx == CHOOSE j \in 1..(Len(q) + 1) : (j = Len(q) + 1 \/ q[j][i] = -1) /\ \A z \in 1..(j - 1) : q[z][i] # -1
                 IN IF idx > Len(q) THEN Deliver(<<>>) /\ UNCHANGED <<req, okq, cntq>>
                    ELSE LET q2 == [q EXCEPT ![idx][i] = m.n]
                             row == q2[1]
                             full == \A j \in 1..N : row[j] # -1
                             mx == CHOOSE v \in {row[j] : j \in 1..N} : \A j \in 1..N : v >= row[j]
                         IN IF full
                            THEN /\ cntq' = (IF Len(q2) = 1 THEN Del(cntq, m.sub) ELSE Put(cntq, m.sub, Tail(q2)))
                                 /\ Deliver(<<MSCount(m.sub, mx)>>) /\ UNCHANGED <<req, okq>>
                            ELSE cntq' = Put(cntq, m.sub, q2) /\ Deliver(<<>>) /\ UNCHANGED <<req, okq>>
       [] OTHER -> Deliver(<<m>>) /\ UNCHANGED <<req, okq, cntq>>
  /\ UNCHANGED <<nsent, bcast, todo>>

Next == ClientSend \/ ChildTake \/ (\E i \in 1..N : MergeTake(i) \/ HandleSend(i))
Spec == Init /\ [][Next]_vars

---------------------------------------------------------------------------
MonitorOK  == StepOK(H, N)
Drained    == bcast = <<>> /\ \A i \in 1..N : todo[i] = <<>> /\ hold[i] = <<>>
QuiesceInv == Drained => QuiesceOK(H, N)
\* the per-subscription state exists exactly while a REQ is neither EOSEd nor closed
StateInv   == Drained => (DOMAIN req = awaiting \cap DOMAIN req)
NoLeak     == Drained => (okq = <<>> /\ cntq = <<>>)
=============================================================================
