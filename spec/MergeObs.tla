------------------------------ MODULE MergeObs ------------------------------
(***************************************************************************)
(* Observation layer of the merged handler (C08, C09): the property as a   *)
(* monitor over the history H of events a client and the child handlers    *)
(* can observe.                                                            *)
(*   [t |-> "csnd",  ch |-> 0, m |-> msg]  client offers msg (stamped before)*)
(*   [t |-> "cgot",  ch |-> 0, m |-> msg]  client received msg (stamped after)*)
(*   [t |-> "chrecv",ch |-> i, m |-> msg]  child i received msg              *)
(*   [t |-> "emits", ch |-> i, m |-> msg]  child i starts to emit msg        *)
(* msg : [k, sub, id, ts, acc, txt, n, fs]                                  *)
(*   client kinds  REQ(sub, fs) CLOSE(sub) EVENT(id) COUNT(sub)             *)
(*   server kinds  EOSE(sub) SEVENT(sub, id, ts, ev) OK(id, acc, txt)       *)
(*                 SCOUNT(sub, n) NOTICE(txt)                               *)
(* StepOK(H) judges the last event of H given the earlier ones; it is an   *)
(* invariant of the mechanism model (MergeMC) and the step condition of    *)
(* the trace specification (MergeTrace).  QuiesceOK(H) judges a finished,  *)
(* drained execution.  N = number of children.                             *)
(* Client restriction (from the property): a subscription id is re-issued  *)
(* only after its EOSE was received.                                        *)
(***************************************************************************)
EXTENDS Nostr

Is(e, t, k)        == e.t = t /\ e.m.k = k
Before(H, p)       == 1..(p - 1)

\* the instance (1,2,..) of subscription s a client-side / child-side event at p belongs to
CInst(H, p, s)    == Cardinality({q \in Before(H, p) : Is(H[q], "csnd", "REQ") /\ H[q].m.sub = s})
ChInst(H, p, i, s) == Cardinality({q \in Before(H, p) : Is(H[q], "chrecv", "REQ") /\ H[q].ch = i /\ H[q].m.sub = s})
\* position of the k-th csnd(REQ s)
ReqPos(H, s, k)   == CHOOSE q \in DOMAIN H : Is(H[q], "csnd", "REQ") /\ H[q].m.sub = s /\ CInst(H, q, s) = k - 1
\* positions of the client's EOSE for instance k of s
EosePos(H, s, k)  == {q \in DOMAIN H : Is(H[q], "cgot", "EOSE") /\ H[q].m.sub = s /\ CInst(H, q, s) = k}

\* A forwarded event may stem from the previous instance of a re-issued subscription id:
\* some child emitted it before that child received the k-th REQ (a live event of the old
\* instance still in flight).  Such an event is judged by neither instance's stored phase.
MayBeStale(H, q) ==
  LET s == H[q].m.sub   k == CInst(H, q, s) IN
  k >= 2 /\ \E z \in Before(H, q) : Is(H[z], "emits", "SEVENT") /\ H[z].m = H[q].m /\ ChInst(H, z, H[z].ch, s) < k

\* pre-EOSE events the client got for instance k of s, before position p
PrePhase(H, p, s, k) == {q \in Before(H, p) : Is(H[q], "cgot", "SEVENT") /\ H[q].m.sub = s /\ CInst(H, q, s) = k
                                               /\ (\A z \in EosePos(H, s, k) : q < z) /\ ~MayBeStale(H, q)}

\* ---- C08 ---------------------------------------------------------------
EoseOK(H, p, N) ==
  LET s == H[p].m.sub   k == CInst(H, p, s) IN
  /\ k >= 1
  /\ EosePos(H, s, k) = {p}                                         \* never a second one
  /\ \A i \in 1..N : \E q \in Before(H, p) :                        \* after every child's own EOSE
        Is(H[q], "emits", "EOSE") /\ H[q].ch = i /\ H[q].m.sub = s /\ ChInst(H, q, i, s) = k
  \* none if the client closed meanwhile: the merge clears its state before it hands the CLOSE to
  \* the first child, so an EOSE that any child starts to emit after any child has received the
  \* CLOSE is processed after the state is gone, and the merged EOSE needs all of them
  /\ LET closes == {q \in Before(H, p) : Is(H[q], "chrecv", "CLOSE") /\ H[q].m.sub = s /\ ChInst(H, q, H[q].ch, s) = k}
         eoses  == {q \in Before(H, p) : Is(H[q], "emits", "EOSE")   /\ H[q].m.sub = s /\ ChInst(H, q, H[q].ch, s) = k}
     IN ~ \E q1 \in closes : \E q2 \in eoses : q1 < q2

ClosedBefore(H, p, s, k) == \E c \in Before(H, p) : Is(H[c], "csnd", "CLOSE") /\ H[c].m.sub = s /\ CInst(H, c, s) = k

EventOK(H, p, N) ==
  LET s == H[p].m.sub   k == CInst(H, p, s)   e == H[p].m IN
  /\ k >= 1
  /\ \E q \in Before(H, p) : Is(H[q], "emits", "SEVENT") /\ H[q].m = e          \* emitted by a child, same label, unchanged
  /\ (EosePos(H, s, k) = {} /\ ~ClosedBefore(H, p, s, k) /\ ~MayBeStale(H, p)) =>                    \* stored phase, subscription not closed by the client
       LET fs == H[ReqPos(H, s, k)].m.fs   pre == PrePhase(H, p, s, k) IN
       /\ MatchesAny(e.ev, fs)
       /\ \A q \in pre : H[q].m.id # e.id
       /\ \A q \in pre : H[q].m.ts >= e.ts
       /\ (Len(fs) = 1 /\ fs[1].limit.p) => Cardinality(pre) + 1 <= fs[1].limit.v

\* ---- C09 ---------------------------------------------------------------
\* n-th element of a set of positions
Nth(S, n) == CHOOSE q \in S : Cardinality({z \in S : z < q}) = n - 1
PosBefore(H, p, t, k) == {q \in Before(H, p) : Is(H[q], t, k)}

StartsWith(txt, pre) == Len(pre) <= Len(txt) /\ SubSeq(txt, 1, Len(pre)) = pre

OkOK(H, p, N) ==
  LET id   == H[p].m.id
      k    == Cardinality({q \in 1..p : Is(H[q], "cgot", "OK") /\ H[q].m.id = id})
      subs == {q \in PosBefore(H, p, "csnd", "EVENT") : H[q].m.id = id}
      ch(i) == {q \in PosBefore(H, p, "emits", "OK") : H[q].ch = i /\ H[q].m.id = id}
  IN
  /\ Cardinality(subs) >= k                                           \* an OK only for a submitted event
  /\ \A i \in 1..N : Cardinality(ch(i)) >= k                          \* after every child's verdict
  /\ LET v == [i \in 1..N |-> H[Nth(ch(i), k)].m] IN
     /\ H[p].m.acc = (\A i \in 1..N : v[i].acc)
     /\ (~H[p].m.acc) =>
          LET first == CHOOSE i \in 1..N : ~v[i].acc /\ \A j \in 1..(i - 1) : v[j].acc
          IN StartsWith(H[p].m.txt, v[first].txt)

CountOK(H, p, N) ==
  LET s    == H[p].m.sub
      k    == Cardinality({q \in 1..p : Is(H[q], "cgot", "SCOUNT") /\ H[q].m.sub = s})
      subs == {q \in PosBefore(H, p, "csnd", "COUNT") : H[q].m.sub = s}
      ch(i) == {q \in PosBefore(H, p, "emits", "SCOUNT") : H[q].ch = i /\ H[q].m.sub = s}
  IN
  /\ Cardinality(subs) >= k
  /\ \A i \in 1..N : Cardinality(ch(i)) >= k
  /\ LET v == [i \in 1..N |-> H[Nth(ch(i), k)].m.n] IN
     /\ \E i \in 1..N : H[p].m.n = v[i]
     /\ \A i \in 1..N : H[p].m.n >= v[i]

OtherOK(H, p) == \E q \in Before(H, p) : H[q].t = "emits" /\ H[q].m = H[p].m     \* NOTICE etc. pass through

StepOK(H, N) ==
  LET p == Len(H) IN
  (p > 0 /\ H[p].t = "cgot") =>
     CASE H[p].m.k = "EOSE"   -> EoseOK(H, p, N)
       [] H[p].m.k = "SEVENT" -> EventOK(H, p, N)
       [] H[p].m.k = "OK"     -> OkOK(H, p, N)
       [] H[p].m.k = "SCOUNT" -> CountOK(H, p, N)
       [] OTHER               -> OtherOK(H, p)

\* ---- a finished and drained execution -----------------------------------
Count(H, P(_)) == Cardinality({q \in DOMAIN H : P(H[q])})

QuiesceRepliesOK(H, N) ==
  \* one OK per EVENT, one COUNT per COUNT
  /\ \A q \in DOMAIN H : Is(H[q], "csnd", "EVENT") =>
        Count(H, LAMBDA e : Is(e, "cgot", "OK") /\ e.m.id = H[q].m.id)
          = Count(H, LAMBDA e : Is(e, "csnd", "EVENT") /\ e.m.id = H[q].m.id)
  /\ \A q \in DOMAIN H : Is(H[q], "csnd", "COUNT") =>
        Count(H, LAMBDA e : Is(e, "cgot", "SCOUNT") /\ e.m.sub = H[q].m.sub)
          = Count(H, LAMBDA e : Is(e, "csnd", "COUNT") /\ e.m.sub = H[q].m.sub)
  \* a REQ that was never closed got its EOSE (all children answered it)
  /\ \A q \in DOMAIN H : Is(H[q], "csnd", "REQ") =>
        LET s == H[q].m.sub   k == CInst(H, q, s) + 1 IN
        ((\A i \in 1..N : \E z \in DOMAIN H : Is(H[z], "emits", "EOSE") /\ H[z].ch = i /\ H[z].m.sub = s /\ ChInst(H, z, i, s) = k)
          /\ ~ \E z \in DOMAIN H : Is(H[z], "csnd", "CLOSE") /\ H[z].m.sub = s /\ CInst(H, z, s) = k)
        => EosePos(H, s, k) # {}

\* live events after the EOSE (children whose emissions are flushed by the final sentinel)
QuiesceLiveOK(H, N) ==
  \* after the EOSE: every event a child emits (emission started after the client got the
  \* EOSE; the client neither closes nor re-issues the subscription id afterwards, which
  \* would race with the delivery) is forwarded, in that child's order
  /\ \A z \in DOMAIN H : Is(H[z], "cgot", "EOSE") =>
        LET s == H[z].m.sub   k == CInst(H, z, s)
            Open(q) == CInst(H, q, s) = k /\ ~ \E c \in 1..q : Is(H[c], "csnd", "CLOSE") /\ H[c].m.sub = s /\ CInst(H, c, s) = k
        IN \A i \in 1..N :
             LET must == {q \in DOMAIN H : q > z /\ Is(H[q], "emits", "SEVENT") /\ H[q].ch = i /\ H[q].m.sub = s /\ Open(q)
                                            /\ ~ \E c \in DOMAIN H : c > q /\ H[c].t = "csnd" /\ H[c].m.k \in {"CLOSE", "REQ"} /\ H[c].m.sub = s}
                 gotp(q) == {g \in DOMAIN H : g > q /\ Is(H[g], "cgot", "SEVENT") /\ H[g].m = H[q].m}
             IN /\ \A q \in must : gotp(q) # {}
                /\ LET G == [q \in must |-> gotp(q)]
                       lo(q) == CHOOSE g \in G[q] : \A x \in G[q] : g <= x
                       hi(q) == CHOOSE g \in G[q] : \A x \in G[q] : g >= x
                   IN \A q1 \in must : \A q2 \in must : (q1 < q2 /\ G[q1] # {} /\ G[q2] # {}) => lo(q1) < hi(q2)

QuiesceOK(H, N) == QuiesceRepliesOK(H, N) /\ QuiesceLiveOK(H, N)
=============================================================================
