SPECIFICATION Spec
CONSTANTS
  N = 2
  MaxClient = 2
  Mode = "ok"
  Small = TRUE
INVARIANTS MonitorOK QuiesceInv StateInv NoLeak
CHECK_DEADLOCK FALSE
