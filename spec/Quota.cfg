SPECIFICATION Spec
CONSTANTS
  MaxN = 3
  Export = TRUE
INVARIANTS QuotaInv
CHECK_DEADLOCK FALSE
