------------------------------ MODULE StoreLin ------------------------------
(***************************************************************************)
(* C15: linearizability of concurrent use of one in-memory store.          *)
(* The recorded history has one `call' line before each invocation and one *)
(* `ret' line after its return, in one total order.  Between its call and  *)
(* its return every operation takes one silent Lin step that applies the   *)
(* sequential Store action; the *recorded* result must be one the          *)
(* sequential specification allows in that state (added flag of Add,       *)
(* AnswerOK of Find, cardinality of Len).  TLC searches the linearisation  *)
(* orders (depth first); the history is accepted iff its last line can be  *)
(* reached.  Every recorded Find result must also satisfy the retention    *)
(* invariants on its own (the "in particular" clause).                     *)
(***************************************************************************)
EXTENDS Store, TraceBase

VARIABLES l, retained, cap, pending, lind
vars == <<l, retained, cap, pending, lind>>
\* pending : ids of operations called and not yet linearized ; lind : linearized, not yet returned

Ids(S) == {e.id : e \in S}
EvOf(S, i) == CHOOSE e \in S : e.id = i

Init == l = 1 /\ retained = {} /\ cap = 1 /\ pending = {} /\ lind = {} /\ HWMInit
Line == Trace[l]
Step(op) == l <= Len(Trace) /\ Line.op = op /\ l' = l + 1

\* the lines of operation o
CallOf(o) == Trace[CHOOSE j \in DOMAIN Trace : Trace[j].op = "call" /\ Trace[j].id = o]
RetOf(o)  == Trace[CHOOSE j \in DOMAIN Trace : Trace[j].op = "ret" /\ Trace[j].id = o]

TReset == Step("reset") /\ retained' = {} /\ cap' = Line.cap /\ pending' = {} /\ lind' = {}
TCall  == Step("call") /\ pending' = pending \cup {Line.id} /\ UNCHANGED <<retained, cap, lind>>
TRet   == Step("ret") /\ Line.id \in lind /\ lind' = lind \ {Line.id} /\ UNCHANGED <<retained, cap, pending>>

\* a listing returned by Find must be retention-consistent by itself
ResultOK(res) == LET S == SeqRange(res) IN
                 /\ Cardinality(S) = Len(res)
                 /\ RetentionOK(S, cap)

Lin(o) ==
  /\ o \in pending
  /\ pending' = pending \ {o} /\ lind' = lind \cup {o}
  /\ LET c == CallOf(o)   r == RetOf(o) IN
     CASE c.kind = "add"  -> AddRel(retained, c.e, r.added, retained', cap)
       [] c.kind = "find" -> /\ SeqRange(r.res) \subseteq Ids(retained)
                             /\ AnswerOK([i \in DOMAIN r.res |-> EvOf(retained, r.res[i])], retained, FiltersOf(c.fs))
                             /\ ResultOK([i \in DOMAIN r.res |-> EvOf(retained, r.res[i])])
                             /\ retained' = retained
       [] OTHER           -> r.n = Cardinality(retained) /\ retained' = retained
  /\ UNCHANGED <<l, cap>>

Next == TReset \/ TCall \/ TRet \/ \E o \in pending : Lin(o)
Spec == Init /\ [][Next]_vars
See == HWMSee(l)
Accepted == HWMAccepted
=============================================================================
