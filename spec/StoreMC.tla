------------------------------ MODULE StoreMC ------------------------------
(***************************************************************************)
(* Exhaustive model of Store over a universe of events that hits every     *)
(* retention rule, capacities 1..MaxCap.  TLC checks the retention         *)
(* invariants and the leave / isolation action properties, and (config     *)
(* StoreMC_export) prints the complete transition relation as JSON, which  *)
(* the harness replays on the real EventCache (graph-guided replay).       *)
(***************************************************************************)
EXTENDS Store, Json

CONSTANTS MaxCap, Export

VARIABLES retained, cap, last
vars == <<retained, cap, last>>

Tg(n, v)  == [name |-> n, val |-> v, n |-> 2]
Tg1(n)    == [name |-> n, val |-> "", n |-> 1]
Tg3(n, v) == [name |-> n, val |-> v, n |-> 3]
Ev(i, a, k, t, tg) == [id |-> i, author |-> a, kind |-> k, ts |-> t, tags |-> tg]

Universe == {
  \* regular
  Ev("r1", "a", 1, 1, <<>>), Ev("r2", "a", 1, 2, <<Tg("t", "x")>>), Ev("r3", "b", 1, 2, <<>>),
  Ev("r4", "b", 1, 1, <<Tg("p", "a")>>),
  \* replaceable: older / newer / tie / other author / other kind
  Ev("p1", "a", 0, 1, <<>>), Ev("p2", "a", 0, 3, <<>>), Ev("p3", "a", 0, 3, <<Tg("t", "x")>>),
  Ev("p4", "b", 0, 2, <<>>), Ev("q1", "a", 10002, 2, <<>>),
  \* addressable with d
  Ev("x1", "a", 30000, 1, <<Tg("d", "x")>>), Ev("x2", "a", 30000, 2, <<Tg("d", "x")>>),
  Ev("x3", "a", 30000, 1, <<Tg("d", "y")>>), Ev("x4", "b", 30000, 3, <<Tg("d", "x")>>),
  \* empty d written in two ways: same address
  Ev("y1", "a", 30002, 2, <<Tg("d", "")>>), Ev("y2", "a", 30002, 3, <<Tg1("d")>>),
  \* no d tag at all: different authors / kinds must never share a slot
  Ev("y3", "a", 30000, 4, <<>>), Ev("y4", "b", 30000, 5, <<>>), Ev("y5", "a", 30001, 5, <<Tg("t", "x")>>),
  \* ephemeral
  Ev("g1", "a", 20000, 5, <<>>), Ev("g2", "b", 20001, 6, <<>>),
  \* deletion requests
  Ev("k1", "a", 5, 3, <<Tg("e", "r1")>>),                       \* own regular event by id
  Ev("k2", "a", 5, 3, <<Tg("a", "30000:a:x")>>),                \* own addressable by address
  Ev("k3", "b", 5, 4, <<Tg("e", "r1"), Tg("a", "30000:a:x")>>), \* foreign targets
  Ev("k4", "a", 5, 4, <<Tg("e", "k1")>>),                       \* a deletion request
  Ev("k5", "a", 5, 4, <<Tg("e", "p2"), Tg("e", "x3")>>),        \* replaceable / addressable by id
  Ev("k6", "a", 5, 1, <<Tg3("e", "r2")>>),                      \* reference with a relay hint
  Ev("k8", "a", 5, 1, <<Tg("e", "raw:not an id"), Tg("e", "r1")>>),                       \* a second, older request for the same target
  Ev("k9", "b", 5, 4, <<Tg("e", "p2"), Tg("e", "x2")>>),        \* foreign replaceable / addressable by id
  Ev("k10", "a", 5, 2, <<Tg("e", "g1")>>),                     \* names an ephemeral event of its author
  Ev("k11", "b", 5, 5, <<Tg("e", "k1")>>),                     \* foreign request naming a deletion request
  Ev("k12", "a", 5, 2, <<Tg("e", "r1"), Tg3("e", "r1")>>),     \* names one target twice (a third request for r1)
  Ev("y6", "a", 30002, 4, <<Tg1("d"), Tg("d", "x")>>),          \* value-less d tag first: the address is still d = ""
  \* a repeated tag followed by another one (index maintenance)
  Ev("r5", "b", 1, 3, <<Tg("t", "z"), Tg("t", "z"), Tg("p", "c")>>)
}

ById(i) == CHOOSE e \in Universe : e.id = i
Ids(S)  == {e.id : e \in S}

Init == /\ retained = {}
        /\ cap \in 1..MaxCap
        /\ last = [e |-> "-", added |-> FALSE, from |-> {}]
        /\ (Export => PrintT(ToJson([universe |-> Universe])))

Next == \E e \in Universe, added \in BOOLEAN :
          /\ AddRel(retained, e, added, retained', cap)
          /\ cap' = cap
          /\ last' = [e |-> e.id, added |-> added, from |-> Ids(retained)]
          /\ (Export => PrintT(ToJson([cap |-> cap, s |-> Ids(retained), a |-> e.id,
                                       added |-> added, t |-> Ids(retained')])))

Spec == Init /\ [][Next]_vars

---------------------------------------------------------------------------
TypeOK == retained \subseteq Universe
Inv    == RetentionOK(retained, cap)

\* action properties, evaluated on every transition (C04 / C05)
StepOK(S, e, added, T) ==
            /\ LeavesOnlyBy(S, e, T)
            /\ AuthorIsolation(S, e, T)
            /\ BlockIsolation(S, e)
            /\ (T \ S) \subseteq {e}                             \* only the offered event can enter
            /\ FlagOK(S, e, added)
StepProp == [][StepOK(retained, ById(last'.e), last'.added, retained')]_vars
View == <<retained, cap>>

\* Dump / Restore (C16): re-inserting the retained events, in the order a dump
\* lists them (newest first), into an empty store of the same capacity
\* reproduces the retained set.
RECURSIVE RestoreFrom(_, _, _)
RestoreFrom(seq, S, c) ==
  IF seq = <<>> THEN S
  ELSE LET e == Head(seq)
           T == CHOOSE T \in SUBSET (S \cup {e}) : \E ad \in BOOLEAN : AddRel(S, e, ad, T, c)
       IN RestoreFrom(Tail(seq), T, c)
\* any listing order (ties arbitrary): every permutation consistent with newest-first
DumpOrders(S) == {sq \in [1..Cardinality(S) -> S] :
                    /\ \A i, j \in DOMAIN sq : i # j => sq[i] # sq[j]
                    /\ \A i \in 1..(Cardinality(S) - 1) : sq[i].ts >= sq[i + 1].ts}
DumpRestoreOK == \A sq \in DumpOrders(retained) : RestoreFrom(sq, {}, cap) = retained
=============================================================================
