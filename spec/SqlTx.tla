------------------------------- MODULE SqlTx -------------------------------
(***************************************************************************)
(* One batch insertion of the SQLite store at statement grain (C14):       *)
(*   BeginTx ; 5 x Prepare ; for each storable event of the batch:         *)
(*     exec events-upsert ; if a row was written: exec payload,            *)
(*     exec one tag row per distinct single-letter tag, exec one address   *)
(*     tombstone per a tag, one id tombstone per e tag (kind 5 only) ;     *)
(*   Commit.                                                               *)
(* Any statement can fail (FailAt = its 1-based index); the failure is     *)
(* followed by Rollback.  `committed' is what queries see; the batch works *)
(* on the private copy `tx'.  Close/reopen between batches keeps           *)
(* `committed' and the hash seed.                                          *)
(***************************************************************************)
EXTENDS SqlStore, Json
CONSTANTS MaxBatch, MaxBatches, Export

Tg(n, v)  == [name |-> n, val |-> v, n |-> 2]
Tg3(n, v) == [name |-> n, val |-> v, n |-> 3]
Ev(i, a, k, t, tg) == [id |-> i, author |-> a, kind |-> k, ts |-> t, tags |-> tg]
Universe == {
  Ev("r1", "a", 1, 1, <<Tg("t", "x"), Tg("t", "x"), Tg("title", "x")>>),
  Ev("x1", "a", 30000, 1, <<Tg("d", "x")>>), Ev("x2", "a", 30000, 2, <<Tg("d", "x"), Tg("t", "y")>>),
  Ev("g1", "a", 20000, 5, <<>>),
  Ev("k1", "a", 5, 3, <<Tg("e", "r1"), Tg3("a", "30000:a:x")>>),
  Ev("k3", "b", 5, 4, <<Tg("e", "r1")>>)
}
Batches == UNION {[1..n -> Universe] : n \in 1..MaxBatch}

\* statements one event contributes, given the working copy
Rejected(st, e) == \E o \in RowOlds(st.rows, e) : o.id = e.id \/ o.ts >= e.ts
TagRows(e) == {<<t.name, t.val>> : t \in {u \in Range(e.tags) : Len(u.name) = 1}}
Refs(e, nm) == SelectSeq(e.tags, LAMBDA t : t.name = nm /\ t.n >= 2)
StmtsOf(st, e) ==
  IF ~Storable(e) THEN <<>>
  ELSE IF Rejected(st, e) THEN << [k |-> "events", w |-> FALSE] >>
  ELSE << [k |-> "events", w |-> TRUE], [k |-> "payload"] >>
       \o [j \in 1..Cardinality(TagRows(e)) |-> [k |-> "tag"]]
       \o (IF e.kind = 5 THEN [j \in 1..Len(Refs(e, "a")) |-> [k |-> "tombkey", r |-> Refs(e, "a")[j].val]] ELSE <<>>)
       \o (IF e.kind = 5 THEN [j \in 1..Len(Refs(e, "e")) |-> [k |-> "tombid",  r |-> Refs(e, "e")[j].val]] ELSE <<>>)

Apply(st, e, s) ==
  CASE s.k = "events" /\ s.w -> [st EXCEPT !.rows = (st.rows \ RowOlds(st.rows, e)) \cup {e}]
    [] s.k = "tombkey"       -> [st EXCEPT !.tad = st.tad \cup {<<s.r, e.author>>}]
    [] s.k = "tombid"        -> [st EXCEPT !.tid = st.tid \cup {<<s.r, e.author>>}]
    [] OTHER                 -> st

VARIABLES committed, tx, pc, batch, ei, todo, n, failAt, done, nb, seed
vars == <<committed, tx, pc, batch, ei, todo, n, failAt, done, nb, seed>>
\* pc: idle | pre (begin + prepares) | run | commit | failed
\* n : statements issued so far in this batch ; done : batches that committed

Ids(S) == {e.id : e \in S}

Init == /\ committed = SqlEmpty /\ tx = SqlEmpty /\ pc = "idle" /\ batch = <<>> /\ ei = 0
        /\ todo = <<>> /\ n = 0 /\ failAt = 0 /\ done = <<>> /\ nb = 0 /\ seed = 1

\* a batch without any storable event issues no statement at all
Empty(b) == \A i \in DOMAIN b : ~Storable(b[i])
Start == /\ pc = "idle" /\ nb < MaxBatches
         /\ \E b \in Batches, f \in 0..19 :
              /\ batch' = b /\ failAt' = f
              /\ pc' = (IF Empty(b) THEN "idle" ELSE "pre")
              /\ done' = (IF Empty(b) THEN Append(done, b) ELSE done)
              /\ (Export /\ Empty(b)) =>
                    PrintT(ToJson([batch |-> [i \in DOMAIN b |-> b[i].id], failAt |-> 0, stmts |-> 0,
                                   pre |-> Ids(Live(committed)), post |-> Ids(Live(committed)),
                                   hist |-> [i \in DOMAIN done |-> [j \in DOMAIN done[i] |-> done[i][j].id]]]))
         /\ tx' = committed /\ ei' = 0 /\ todo' = <<>> /\ n' = 0 /\ nb' = nb + 1
         /\ UNCHANGED <<committed, seed>>

Fail == pc' = "failed" /\ UNCHANGED <<committed, tx, batch, ei, todo, failAt, done, nb, seed>>

\* BeginTx and the five Prepare calls: six statements without effect
Pre == /\ pc = "pre"
       /\ n' = n + 1
       /\ IF n' = failAt THEN Fail
          ELSE /\ pc' = (IF n' = 6 THEN "run" ELSE "pre")
               /\ UNCHANGED <<committed, tx, batch, ei, todo, failAt, done, nb, seed>>

\* move to the next event of the batch (no statement)
NextEvent == /\ pc = "run" /\ todo = <<>> /\ ei < Len(batch)
             /\ ei' = ei + 1
             /\ todo' = StmtsOf(tx, batch[ei + 1])
             /\ UNCHANGED <<committed, tx, pc, batch, n, failAt, done, nb, seed>>

Exec == /\ pc = "run" /\ todo # <<>>
        /\ n' = n + 1
        /\ IF n' = failAt THEN Fail
           ELSE /\ tx' = Apply(tx, batch[ei], Head(todo))
                /\ todo' = Tail(todo)
                /\ UNCHANGED <<committed, pc, batch, ei, failAt, done, nb, seed>>

Commit == /\ pc = "run" /\ todo = <<>> /\ ei = Len(batch)
          /\ n' = n + 1
          /\ IF n' = failAt THEN Fail
             ELSE /\ committed' = tx /\ pc' = "idle" /\ done' = Append(done, batch)
                  /\ UNCHANGED <<tx, batch, ei, todo, failAt, nb, seed>>
          /\ (Export => PrintT(ToJson([batch |-> [i \in DOMAIN batch |-> batch[i].id], failAt |-> failAt, stmts |-> n',
                                       pre |-> Ids(Live(committed)), post |-> Ids(Live(committed')),
                                       hist |-> [i \in DOMAIN done |-> [j \in DOMAIN done[i] |-> done[i][j].id]]])))

Rollback == /\ pc = "failed"
            /\ pc' = "idle" /\ tx' = committed
            /\ UNCHANGED <<committed, batch, ei, todo, n, failAt, done, nb, seed>>
            /\ (Export => PrintT(ToJson([batch |-> [i \in DOMAIN batch |-> batch[i].id], failAt |-> failAt, stmts |-> n,
                                         pre |-> Ids(Live(committed)), post |-> Ids(Live(committed')),
                                         hist |-> [i \in DOMAIN done |-> [j \in DOMAIN done[i] |-> done[i][j].id]]])))

\* close + reopen between batches: committed data and seed survive
Reopen == /\ pc = "idle" /\ UNCHANGED vars

Next == Start \/ Pre \/ NextEvent \/ Exec \/ Commit \/ Rollback
Spec == Init /\ [][Next]_vars

---------------------------------------------------------------------------
\* batch-grain semantics: fold of SqlStore!InsertOne (no ties in this universe)
RECURSIVE Fold(_, _)
Fold(st, b) == IF b = <<>> THEN st
               ELSE LET e == Head(b)
                        s2 == IF Storable(e) /\ ~Rejected(st, e) THEN Stored(st, e) ELSE st
                    IN Fold(s2, Tail(b))

\* atomicity: what queries see changes only at Commit, to the whole batch
Atomic == [][committed' # committed => (pc = "run" /\ pc' = "idle" /\ committed' = Fold(committed, batch))]_vars
\* statement grain refines batch grain
Refines == (pc = "run" /\ todo = <<>> /\ ei = Len(batch)) => tx = Fold(committed, batch)
\* a failed batch leaves no trace
FailedIsNoop == pc = "failed" => committed = committed
\* idempotence: the same batch again changes nothing
Idempotent == \A i \in DOMAIN done : i = Len(done) => Fold(committed, done[i]) = committed
TxInv == SqlInv(committed)
=============================================================================
