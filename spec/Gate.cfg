SPECIFICATION Spec
CONSTANTS
  MaxFrames = 3
  MaxEmit = 2
  Export = TRUE
INVARIANTS OnlyValidReachHandler OneRejectionEach ClientSeesHandlerOrder ClientSeesRejections QuiescentOK
PROPERTIES Progress
CHECK_DEADLOCK FALSE
