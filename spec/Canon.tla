------------------------------- MODULE Canon -------------------------------
(***************************************************************************)
(* C01: the NIP-01 canonical serialisation as a case analysis over         *)
(* Unicode scalar values, and event authenticity as id-ok /\ sig-ok with   *)
(* tamper operators.                                                       *)
(*                                                                         *)
(* Classes partition 0..0x10FFFF minus the surrogates.  NIP-01 mandates    *)
(* exactly seven two-character escapes; the remaining C0 controls are      *)
(* written \u00xx (lower-case hex); every other character is verbatim --   *)
(* including the ones JSON encoders like to escape (< > & DEL U+2028       *)
(* U+2029).  The table is exported and is the only escape oracle of the    *)
(* harness.                                                                 *)
(***************************************************************************)
EXTENDS Integers, Sequences, FiniteSets, TLC, Json

CONSTANTS MaxLen, Export

R(n, lo, hi, rule, arg) == [name |-> n, lo |-> lo, hi |-> hi, rule |-> rule, arg |-> arg]

\* sorted, contiguous (except for the surrogate gap D800..DFFF)
Ranges == <<
  R("c0",     0,       7,       "u00",      ""),
  R("bs",     8,       8,       "short",    "b"),
  R("tab",    9,       9,       "short",    "t"),
  R("lf",     10,      10,      "short",    "n"),
  R("c0",     11,      11,      "u00",      ""),
  R("ff",     12,      12,      "short",    "f"),
  R("cr",     13,      13,      "short",    "r"),
  R("c0",     14,      31,      "u00",      ""),
  R("ascii",  32,      33,      "verbatim", ""),
  R("quote",  34,      34,      "short",    "\""),
  R("ascii",  35,      37,      "verbatim", ""),
  R("amp",    38,      38,      "verbatim", ""),
  R("ascii",  39,      59,      "verbatim", ""),
  R("lt",     60,      60,      "verbatim", ""),
  R("ascii",  61,      61,      "verbatim", ""),
  R("gt",     62,      62,      "verbatim", ""),
  R("ascii",  63,      91,      "verbatim", ""),
  R("bslash", 92,      92,      "short",    "\\"),
  R("ascii",  93,      126,     "verbatim", ""),
  R("del",    127,     127,     "verbatim", ""),
  R("bmp",    128,     8231,    "verbatim", ""),
  R("ls",     8232,    8232,    "verbatim", ""),
  R("ps",     8233,    8233,    "verbatim", ""),
  R("bmp",    8234,    55295,   "verbatim", ""),
  R("bmp",    57344,   65535,   "verbatim", ""),
  R("astral", 65536,   1114111, "verbatim", "")
>>

ClassNames == {Ranges[i].name : i \in DOMAIN Ranges}
ClassOf(cp) == (CHOOSE i \in DOMAIN Ranges : Ranges[i].lo <= cp /\ cp <= Ranges[i].hi)
RuleOf(n)   == LET i == CHOOSE j \in DOMAIN Ranges : Ranges[j].name = n IN [rule |-> Ranges[i].rule, arg |-> Ranges[i].arg]

\* the table is a partition of the scalar values
PartitionOK ==
  /\ Ranges[1].lo = 0 /\ Ranges[Len(Ranges)].hi = 1114111
  /\ \A i \in DOMAIN Ranges : Ranges[i].lo <= Ranges[i].hi
  /\ \A i \in 1..(Len(Ranges) - 1) :
       \/ Ranges[i + 1].lo = Ranges[i].hi + 1
       \/ Ranges[i].hi = 55295 /\ Ranges[i + 1].lo = 57344
\* a class name has one rule
RuleFunctional == \A i, j \in DOMAIN Ranges : Ranges[i].name = Ranges[j].name =>
                     Ranges[i].rule = Ranges[j].rule /\ Ranges[i].arg = Ranges[j].arg
\* exactly the seven mandated short escapes, all C0 covered, nothing above 0x1F escaped as \u
NIP01OK ==
  /\ {Ranges[i].arg : i \in {j \in DOMAIN Ranges : Ranges[j].rule = "short"}} = {"b", "t", "n", "f", "r", "\"", "\\"}
  /\ \A i \in DOMAIN Ranges : Ranges[i].rule = "u00" => Ranges[i].hi <= 31
  /\ \A i \in DOMAIN Ranges : Ranges[i].hi <= 31 => Ranges[i].rule # "verbatim"
  /\ \A i \in DOMAIN Ranges : (Ranges[i].lo > 31 /\ Ranges[i].rule # "verbatim") => Ranges[i].lo \in {34, 92}

ASSUME PartitionOK /\ RuleFunctional /\ NIP01OK

---------------------------------------------------------------------------
(* Abstract events: content and one tag value are strings of classes.      *)

Strings(n) == UNION {[1..k -> ClassNames] : k \in 0..n}
TagShapes == {"none", "one", "three", "emptyval", "two-tags",
              "name", "name-only"}      \* the class string as a tag NAME (with a value / alone): names are escaped like any string
Tampers == {"none", "content", "tagvalue", "tagadd", "kind", "created_at", "pubkey",
            "id-bit", "sig-bit", "sig-other", "id-other",
            "content-reid", "pubkey-reid",   \* forgeries with a recomputed (consistent) id and the stale signature
            "id-trunc",                      \* trailing zero bytes cut off the id (applies when the id ends in 00)
            "offcurve-reid",                 \* the same with a public key that is not a point of the curve
            "id-case", "sig-case"}           \* one hex letter of the id / the signature in upper case (one bit of the text)

\* The last two leave the decoded bytes unchanged: Event.Verify decodes the hex text, so they are
\* refused by the field validators (Event.Valid) in front of it. For them "reported authentic"
\* is the verdict of the admission gate, Valid /\ Verify; for all others Verify alone must refuse.
Lexical == {"id-case", "sig-case"}

\* what the tamper does to the two checks (id = hash of canonical form, sig over id)
IdOK(t)  == t \in {"none", "sig-bit", "sig-other", "content-reid", "pubkey-reid", "offcurve-reid", "sig-case"}
SigOK(t) == t \in {"none", "content", "tagvalue", "tagadd", "kind", "created_at"}   \* sig still signs the (stale) id
Authentic(t) == IdOK(t) /\ SigOK(t)
OnlyUntamperedAuthentic == \A t \in Tampers : Authentic(t) <=> t = "none"
ASSUME OnlyUntamperedAuthentic

\* The content string is built one class at a time, so the state graph is the
\* tree of all class strings up to MaxLen; every state is exported with every
\* tag shape and the authenticity verdict of every tamper operator.
VARIABLE s
Init == s = <<>> /\ (Export => PrintT(ToJson([ranges |-> Ranges])))
Emit(str) == \A sh \in TagShapes :
               PrintT(ToJson([content |-> str, shape |-> sh, tampers |-> [t \in Tampers |-> Authentic(t)]]))
Next == /\ Len(s) < MaxLen
        /\ \E cl \in ClassNames : s' = Append(s, cl)
        /\ (Export => Emit(s'))
Spec == Init /\ [][Next]_s
TypeOK == s \in Strings(MaxLen)
=============================================================================
