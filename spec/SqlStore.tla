------------------------------ MODULE SqlStore ------------------------------
(***************************************************************************)
(* The SQLite event store (handler/sqlite) at the level of rows.  C06.     *)
(*   rows : stored events, one per id (regular) or address (replaceable /  *)
(*          addressable, newest created_at wins)                            *)
(*   tid  : tombstones <<event id, author>>       (deleted_event_ids)       *)
(*   tad  : tombstones <<address, author>>        (deleted_event_keys)      *)
(* Tombstones only grow.  A stored event is live unless a tombstone of its *)
(* own author names its id or its address -- whichever arrived first.      *)
(* Events without address semantics the property leaves open (addressable  *)
(* events without d tag) are not generated.                                 *)
(***************************************************************************)
EXTENDS Nostr

SqlEmpty == [rows |-> {}, tid |-> {}, tad |-> {}]

Storable(e)   == Class(e.kind) # "ephemeral"
RowOlds(S, e) == {x \in S : SameSlot(x, e)}

Stored(st, e) ==
  [rows |-> (st.rows \ RowOlds(st.rows, e)) \cup {e},
   tid  |-> st.tid \cup (IF e.kind = 5 THEN {<<r, e.author>> : r \in ERefs(e)} ELSE {}),
   tad  |-> st.tad \cup (IF e.kind = 5 THEN {<<r, e.author>> : r \in ARefs(e)} ELSE {})]

\* one event of a batch: st --e--> st2   (created_at tie between versions: either)
InsertOne(st, e, st2) ==
  IF ~Storable(e) THEN st2 = st
  ELSE \/ /\ \E o \in RowOlds(st.rows, e) : o.id = e.id \/ o.ts >= e.ts
          /\ st2 = st
       \/ /\ \A o \in RowOlds(st.rows, e) : o.id # e.id /\ o.ts <= e.ts
          /\ st2 = Stored(st, e)

Dead(st, x) == \/ <<x.id, x.author>> \in st.tid
               \/ Class(x.kind) = "addressable" /\ <<Addr(x), x.author>> \in st.tad
Live(st)    == {x \in st.rows : ~Dead(st, x)}

SqlInv(st) == /\ \A x, y \in st.rows : x.id = y.id => x = y
              /\ \A x, y \in st.rows : (Addr(x) # NoAddr /\ Addr(x) = Addr(y)) => x = y
              /\ \A x \in st.rows : Storable(x)
=============================================================================
