------------------------------ MODULE MetricsMC ------------------------------
(***************************************************************************)
(* Exhaustive model of Metrics for two sessions: conservation of the       *)
(* gauges over every history of REQ a / REQ a again / CLOSE a / CLOSE b    *)
(* (never opened) / EVENT / server CLOSED a / server EOSE a / End.         *)
(***************************************************************************)
EXTENDS Metrics
CONSTANTS MaxSteps
VARIABLES st, n, started
Sess == {"s1", "s2"}
Init == st = MInit /\ n = 0 /\ started = {}
Next == /\ n < MaxSteps /\ n' = n + 1
        /\ \E s \in Sess :
             \/ s \notin started /\ st' = Start(st, s) /\ started' = started \cup {s}
             \/ /\ s \in st.live /\ started' = started
                /\ \/ st' = CMsg(st, s, "REQ", "k1", "a")
                   \/ st' = CMsg(st, s, "CLOSE", "k1", "a")
                   \/ st' = CMsg(st, s, "CLOSE", "k1", "b")
                   \/ st' = CMsg(st, s, "EVENT", "k1", "")
                   \/ st' = SMsg(st, s, "CLOSED", "a")
                   \/ st' = SMsg(st, s, "EOSE", "a")
                   \/ st' = End(st, s)
Spec == Init /\ [][Next]_<<st, n, started>>
GaugesOK == /\ ConnGauge(st) >= 0 /\ ReqGauge(st) >= 0
            /\ ReqGauge(st) <= Cardinality(st.live)              \* one subscription id in this model
            /\ (st.live = {} => ReqGauge(st) = 0)
            /\ DOMAIN st.subs = st.live
=============================================================================
