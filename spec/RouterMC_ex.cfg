SPECIFICATION Spec
CONSTANTS
  K = 2
  Buf = 1
  MaxMsgs = 2
INVARIANTS MonitorOK QueueBound RegistryOfLive PublisherNotBlocked
CHECK_DEADLOCK FALSE
