------------------------------ MODULE SessionMC ------------------------------
(***************************************************************************)
(* The compositions of C13 as stage graphs for module Session.             *)
(*   mw      : Middleware(SimpleHandler)   recv-stage -> handler -> send-stage -> client *)
(*   router  : RouterHandler               main loop replies directly; forwarder drains the subscription queue *)
(*   merge   : MergeHandler(2 children)    handleRecv broadcasts; children; mergeSend i; handleSend *)
(*   mwmerge : Middleware(Merge(...))                                       *)
(***************************************************************************)
EXTENDS Integers, Sequences, FiniteSets, TLC
CONSTANTS Comp, MaxMsgs, Peer, Ending, Bare

StagesOf == CASE Comp = "mw"     -> {"mwrecv", "handler", "mwsend"}
              [] Comp = "router" -> {"main", "fwd"}
              [] Comp = "merge"  -> {"hrecv", "c1", "c2", "ms1", "ms2", "hsend"}
              [] OTHER           -> {"mwrecv", "hrecv", "c1", "c2", "ms1", "ms2", "hsend", "mwsend"}
TargetsOf == CASE Comp = "mw"     -> [p \in StagesOf |-> CASE p = "mwrecv" -> <<"handler">> [] p = "handler" -> <<"mwsend">> [] OTHER -> <<"client">>]
               [] Comp = "router" -> [p \in StagesOf |-> CASE p = "main" -> <<"fwd", "client">> [] OTHER -> <<"client">>]
               [] Comp = "merge"  -> [p \in StagesOf |-> CASE p = "hrecv" -> <<"c1", "c2">> [] p = "c1" -> <<"ms1">> [] p = "c2" -> <<"ms2">>
                                                            [] p = "ms1" -> <<"hsend">> [] p = "ms2" -> <<"hsend">> [] OTHER -> <<"client">>]
               [] OTHER           -> [p \in StagesOf |-> CASE p = "mwrecv" -> <<"hrecv">> [] p = "hrecv" -> <<"c1", "c2">> [] p = "c1" -> <<"ms1">> [] p = "c2" -> <<"ms2">>
                                                            [] p = "ms1" -> <<"hsend">> [] p = "ms2" -> <<"hsend">> [] p = "hsend" -> <<"mwsend">> [] OTHER -> <<"client">>]
SourcesOf == CASE Comp = "mw" -> {"mwrecv"} [] Comp = "router" -> {"main"} [] Comp = "merge" -> {"hrecv"} [] OTHER -> {"mwrecv"}
BareOf == IF Bare THEN {CHOOSE p \in StagesOf : TargetsOf[p] = <<"client">>} ELSE {}

VARIABLES st, out, left, cancelled, closed, delivered
S == INSTANCE Session WITH Stages <- StagesOf, Targets <- TargetsOf, Sources <- SourcesOf, BareSend <- BareOf
Spec == S!Spec
Termination == S!Termination
TypeOK == S!TypeOK
=============================================================================
