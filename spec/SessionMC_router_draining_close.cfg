SPECIFICATION Spec
CONSTANTS
  Comp = "router"
  MaxMsgs = 2
  Peer = "draining"
  Ending = "close"
  Bare = FALSE
INVARIANTS TypeOK
PROPERTIES Termination
CHECK_DEADLOCK FALSE
