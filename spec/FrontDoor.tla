------------------------------ MODULE FrontDoor ------------------------------
(***************************************************************************)
(* C20: the HTTP front door (ServeMux) as a decision table, and the shapes *)
(* of NIP-11 documents whose JSON round trip is checked.                   *)
(*   Route(req, mux) = relay     if the request has an Upgrade header      *)
(*                     nip11     if Accept is exactly application/nostr+json*)
(*                     default   otherwise (default handler or greeting)   *)
(* TLC enumerates every combination of header classes and mux              *)
(* configurations and every document shape; the harness replays them with  *)
(* net/http/httptest against the real ServeMux / NIP11.                    *)
(***************************************************************************)
EXTENDS Integers, Sequences, FiniteSets, TLC, Json

UpgradeC == {"absent", "websocket", "other", "upper"}           \* Upgrade: websocket / h2c / WebSocket
AcceptC  == {"absent", "exact", "html", "withparam", "list", "upper",
             "lines-exact-first", "lines-exact-second"}     \* two Accept header lines, one of them exact
MethodC  == {"GET", "POST", "OPTIONS"}
OriginC  == {"absent", "set"}                                   \* an Origin header never changes the answer (Access-Control-Allow-Origin stays *)
DocC     == {"nil", "set"}
DefaultC == {"nil", "set"}

\* Two Accept lines form one field value "x, y": whether that "is" application/nostr+json is not
\* claimed (either), but the answer must then be the document or the default handler, nothing else.
Route(u, a) == IF u # "absent" THEN "relay"
               ELSE IF a = "exact" THEN "nip11"
               ELSE IF a \in {"lines-exact-first", "lines-exact-second"} THEN "either" ELSE "default"

\* what the client must observe
Outcome(u, a, doc, def) ==
  CASE Route(u, a) = "relay"   -> IF u \in {"websocket", "upper"} THEN "websocket-session" ELSE "relay-refuses-upgrade"
    [] Route(u, a) = "nip11"   -> IF doc = "set" THEN "document" ELSE "empty-document"
    [] Route(u, a) = "either"  -> (IF doc = "set" THEN "document" ELSE "empty-document") \o "|" \o (IF def = "set" THEN "default-handler" ELSE "greeting")
    [] OTHER                   -> IF def = "set" THEN "default-handler" ELSE "greeting"

Requests == {[upgrade |-> u, accept |-> a, method |-> m, origin |-> o, doc |-> d, def |-> f, outcome |-> Outcome(u, a, d, f)] :
               u \in UpgradeC, a \in AcceptC, m \in MethodC, o \in OriginC, d \in DocC, f \in DefaultC}

\* NIP-11 document shapes: which optional parts are present, and how kinds are written
Fields == {"name", "description", "pubkey", "contact", "supported_nips", "software", "version", "limitation",
           "retention", "relay_countries", "language_tags", "tags", "posting_policy", "payments_url", "fees", "icon"}
KindShapes == {"single", "pair", "pair-equal", "mixed", "zero-bound", "wide", "none"}     \* wide: numbers beyond 2^53
DocShapes == {[fields |-> fs, kinds |-> ks] : fs \in {{}} \cup {{f} : f \in Fields} \cup {{f, g} : f \in Fields, g \in {"limitation", "retention", "fees"}} \cup {Fields},
                                                ks \in KindShapes}

ASSUME \A r \in Requests : r.upgrade # "absent" => r.outcome \in {"websocket-session", "relay-refuses-upgrade"}

VARIABLE done
Init == done = FALSE
Next == /\ ~done /\ done' = TRUE
        /\ \A r \in Requests : PrintT(ToJson([req |-> r]))
        /\ \A d \in DocShapes : PrintT(ToJson([doc |-> d]))
Spec == Init /\ [][Next]_done
=============================================================================
