SPECIFICATION Spec
CONSTANTS
  Comp = "mwmerge"
  MaxMsgs = 2
  Peer = "draining"
  Ending = "close"
  Bare = FALSE
INVARIANTS TypeOK
PROPERTIES Termination
CHECK_DEADLOCK FALSE
