------------------------------ MODULE RelayObs ------------------------------
(***************************************************************************)
(* The whole relay as cmd/mocrelay composes it --                          *)
(*   Relay (WebSocket gate) -> Prometheus -> Merge(Cache, Router, SQLite)  *)
(* -- seen from its clients.  This goes beyond the listed properties: it   *)
(* is the end-to-end contract that the components' properties add up to.   *)
(* History H (one total order over all connections):                       *)
(*   [t |-> "snd", c, m]  connection c writes a frame carrying message m   *)
(*   [t |-> "got", c, m]  connection c read a frame carrying message m     *)
(* m : [k, sub, id, acc, dup, fs, ev]; events are regular (no replacement, *)
(* no deletion) and every published event has a unique id; the stores'     *)
(* capacities exceed the number of events, so nothing is evicted.          *)
(*                                                                         *)
(* EVENT e      -> exactly one OK(e): accepted the first time, a           *)
(*                 duplicate-marked rejection when e was acknowledged      *)
(*                 before it was sent again                                 *)
(* REQ s fs     -> stored phase: events that were published before, match  *)
(*                 fs, pairwise distinct, newest first, at most limit for a *)
(*                 single filter; every matching event that had been       *)
(*                 acknowledged before the REQ was sent is among them      *)
(*                 (filters without limit); then exactly one EOSE(s)       *)
(* after EOSE   -> live phase: an event published (acknowledged) after the *)
(*                 EOSE was received and matching fs is delivered exactly  *)
(*                 once under label s, while the subscription is open      *)
(***************************************************************************)
EXTENDS Nostr

Is(e, t, k) == e.t = t /\ e.m.k = k
Inf == 1000000
Before(p) == 1..(p - 1)

Reqs(H, c, s)  == {q \in DOMAIN H : Is(H[q], "snd", "REQ") /\ H[q].c = c /\ H[q].m.sub = s}
Eoses(H, c, s) == {q \in DOMAIN H : Is(H[q], "got", "EOSE") /\ H[q].c = c /\ H[q].m.sub = s}
Nth(S, n)      == CHOOSE q \in S : Cardinality({z \in S : z < q}) = n - 1
Rank(S, q)     == Cardinality({z \in S : z < q}) + 1
EoseOf(H, R)   == LET c == H[R].c   s == H[R].m.sub   n == Rank(Reqs(H, c, s), R)
                  IN IF Cardinality(Eoses(H, c, s)) >= n THEN Nth(Eoses(H, c, s), n) ELSE Inf
\* the instance (its REQ position) a message for (c, s) at position g belongs to
ReqOf(H, g)    == LET S == {q \in Reqs(H, H[g].c, H[g].m.sub) : q < g} IN
                  IF S = {} THEN 0 ELSE CHOOSE q \in S : \A z \in S : z <= q
Closers(H, R)  == {q \in DOMAIN H : q > R /\ H[q].c = H[R].c /\ H[q].t = "snd"
                                     /\ H[q].m.k \in {"CLOSE", "REQ"} /\ H[q].m.sub = H[R].m.sub}
CloseOf(H, R)  == IF Closers(H, R) = {} THEN Inf ELSE CHOOSE q \in Closers(H, R) : \A z \in Closers(H, R) : q <= z

Pubs(H)        == {q \in DOMAIN H : Is(H[q], "snd", "EVENT")}
FirstPub(H, id) == LET S == {q \in Pubs(H) : H[q].m.id = id} IN CHOOSE q \in S : \A z \in S : q <= z
\* the accepting OK of an event id, anywhere
AckPos(H, id)  == LET S == {q \in DOMAIN H : Is(H[q], "got", "OK") /\ H[q].m.id = id /\ H[q].m.acc} IN
                  IF S = {} THEN Inf ELSE CHOOSE q \in S : \A z \in S : q <= z

\* ---- OK --------------------------------------------------------------------
GotOkOK(H, g) ==
  LET c == H[g].c   id == H[g].m.id
      sent == {q \in Before(g) : Is(H[q], "snd", "EVENT") /\ H[q].c = c /\ H[q].m.id = id}
      oks  == {q \in 1..g : Is(H[q], "got", "OK") /\ H[q].c = c /\ H[q].m.id = id}
  IN /\ Cardinality(oks) <= Cardinality(sent)                         \* an OK only for a submitted event, one each
     /\ LET P == Nth(sent, Cardinality(oks)) IN                        \* the submission this OK answers
        /\ (AckPos(H, id) >= g) => H[g].m.acc                          \* never acknowledged so far: accepted
        /\ (AckPos(H, id) < P) => (~H[g].m.acc /\ H[g].m.dup)          \* acknowledged before it was sent again: duplicate

\* ---- stored phase ----------------------------------------------------------
\* When a subscription id is re-issued, a live event of the previous instance can still be in
\* flight: an event whose publication had not been acknowledged when the previous REQ of (c, s) was sent may be such a straggler
\* and is judged by neither instance's stored phase.
PrevReqs(H, R) == {q \in Reqs(H, H[R].c, H[R].m.sub) : q < R}
MinOf(S) == CHOOSE q \in S : \A z \in S : q <= z
\* per-step tables (computed once per judged step)
IdsOf(H)   == {H[q].m.id : q \in Pubs(H)}
AckTab(H)  == [id \in IdsOf(H) |-> AckPos(H, id)]
PubTab(H)  == [id \in IdsOf(H) |-> {q \in Pubs(H) : H[q].m.id = id}]
\* (the earliest previous instance is the weakest witness)
StaleW(H, q, R0, A, PT) == LET id == H[q].m.id IN
                           id \in DOMAIN PT /\ \E P \in PT[id] : P < q /\ (P > R0 \/ A[id] > R0)
MayBeStale(H, g, R) == PrevReqs(H, R) # {} /\ StaleW(H, g, MinOf(PrevReqs(H, R)), AckTab(H), PubTab(H))

GotEventOK(H, g) ==
  LET R == ReqOf(H, g)   A == AckTab(H)   PT == PubTab(H)   id == H[g].m.id IN
  /\ R > 0
  /\ id \in DOMAIN PT /\ \E P \in PT[id] : P < g /\ H[P].m.ev = H[g].m.ev                  \* published, unchanged
  /\ LET prev  == PrevReqs(H, R)
         R0    == IF prev = {} THEN Inf ELSE MinOf(prev)
         Stale(q) == prev # {} /\ StaleW(H, q, R0, A, PT)
         eose  == EoseOf(H, R)
     IN
     IF eose > g
     THEN \* stored phase (the client has not closed / re-issued: then nothing is claimed)
          (CloseOf(H, R) > g /\ ~Stale(g)) =>
            LET fs == H[R].m.fs
                pre == {q \in Before(g) : q > R /\ Is(H[q], "got", "SEVENT") /\ H[q].c = H[g].c /\ H[q].m.sub = H[g].m.sub /\ ~Stale(q)} IN
            /\ MatchesAny(H[g].m.ev, fs)
            /\ \A q \in pre : H[q].m.id # id
            /\ \A q \in pre : H[q].m.ev.ts >= H[g].m.ev.ts
            /\ (Len(fs) = 1 /\ fs[1].limit.p) => Cardinality(pre) + 1 <= fs[1].limit.v
     ELSE \* live phase
          /\ MatchesAny(H[g].m.ev, H[R].m.fs)
          /\ \* once per publication (the router re-broadcasts an event that is submitted again)
             Cardinality({q \in 1..g : q > eose /\ Is(H[q], "got", "SEVENT") /\ H[q].c = H[g].c
                                         /\ H[q].m.sub = H[g].m.sub /\ H[q].m.id = id})
               <= Cardinality({P \in PT[id] : P < g})
          /\ \* not an event that was already acknowledged before the REQ was sent (that one is stored, not live)
             ~(A[id] < R /\ Cardinality({q \in PT[id] : q < g}) = 1)

GotEoseOK(H, g) ==
  LET c == H[g].c   s == H[g].m.sub IN
  /\ Cardinality({q \in Eoses(H, c, s) : q <= g}) <= Cardinality({q \in Reqs(H, c, s) : q < g})
  /\ LET R == ReqOf(H, g)   A == AckTab(H)   PT == PubTab(H) IN
     \* completeness of the stored phase for filters without limit: everything acknowledged before the REQ was sent
     \* ... claimed only for the first use of the subscription id on the connection and when no
     \* publication is in flight during the stored phase: the merge forwards in non-increasing
     \* created_at order, so a live event that overtakes the stored ones (a concurrent publication,
     \* or a straggler of an earlier subscription with the same id) legitimately shadows newer
     \* stored events -- the listed properties (C08) claim order, not completeness
     (R > 0 /\ CloseOf(H, R) > g /\ (\A i \in DOMAIN H[R].m.fs : ~H[R].m.fs[i].limit.p)
        /\ PrevReqs(H, R) = {}
        /\ \A id \in IdsOf(H) : (\E P \in PT[id] : P < g) => A[id] < R) =>
        \A P \in Pubs(H) :
          (P = MinOf(PT[H[P].m.id]) /\ A[H[P].m.id] < R /\ MatchesAny(H[P].m.ev, H[R].m.fs))
            => \E q \in Before(g) : q > R /\ Is(H[q], "got", "SEVENT") /\ H[q].c = H[g].c /\ H[q].m.sub = H[g].m.sub /\ H[q].m.id = H[P].m.id

StepOK(H) ==
  LET g == Len(H) IN
  (g > 0 /\ H[g].t = "got") =>
     CASE H[g].m.k = "SEVENT" -> GotEventOK(H, g)
       [] H[g].m.k = "OK"     -> GotOkOK(H, g)
       [] H[g].m.k = "EOSE"   -> GotEoseOK(H, g)
       [] H[g].m.k = "NOTICE" -> FALSE                  \* only valid frames are sent: the relay never complains
       [] OTHER               -> TRUE

\* ---- drained -----------------------------------------------------------------
DrainKind == 9
QuiesceOK(H) ==
  /\ \A R \in {q \in DOMAIN H : Is(H[q], "snd", "REQ")} : EoseOf(H, R) < Inf
  /\ \A P \in Pubs(H) : \E q \in DOMAIN H : q > P /\ Is(H[q], "got", "OK") /\ H[q].c = H[P].c /\ H[q].m.id = H[P].m.id
  \* live delivery: confirmed before the publication, still open after its acknowledgement
  /\ LET A == AckTab(H)   PT == PubTab(H)
         RS == {q \in DOMAIN H : Is(H[q], "snd", "REQ")}
         EO == [R \in RS |-> EoseOf(H, R)]   CO == [R \in RS |-> CloseOf(H, R)]
         FP == {P \in Pubs(H) : P = MinOf(PT[H[P].m.id]) /\ H[P].m.ev.kind # DrainKind /\ A[H[P].m.id] < Inf}
     IN \A R \in RS : \A P \in FP :
       (/\ EO[R] < P /\ CO[R] > A[H[P].m.id]
        /\ MatchesAny(H[P].m.ev, H[R].m.fs))
       => \E q \in DOMAIN H : q > P /\ Is(H[q], "got", "SEVENT") /\ H[q].c = H[R].c /\ H[q].m.sub = H[R].m.sub /\ H[q].m.id = H[P].m.id
=============================================================================
