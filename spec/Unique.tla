-------------------------------- MODULE Unique --------------------------------
(***************************************************************************)
(* C18, second half: per-connection de-duplication of event ids (receive   *)
(* side: RecvEventUniqueFilterMiddleware, send side:                       *)
(* SendEventUniqueFilterMiddleware).                                       *)
(* window = the last `size' distinct ids seen, most recent first; a repeat *)
(* refreshes its position.  For an id:                                     *)
(*   in the window            -> must be suppressed (receive side: rejected *)
(*                               with a duplicate-marked OK; send side:    *)
(*                               dropped)                                  *)
(*   never seen               -> must pass                                 *)
(*   seen, fell out of window -> either                                    *)
(***************************************************************************)
EXTENDS Integers, Sequences, FiniteSets, TLC, Json
CONSTANTS MaxSize, Export
Ids == {"x", "y", "z", "w"}

SeqRange(s) == {s[i] : i \in DOMAIN s}
Without(s, id) == SelectSeq(s, LAMBDA v : v # id)
Touch(win, size, id) == LET w == <<id>> \o Without(win, id) IN SubSeq(w, 1, IF Len(w) < size THEN Len(w) ELSE size)
Verdict(win, ever, id) == IF id \in SeqRange(win) THEN "suppress"
                          ELSE IF id \notin ever THEN "pass" ELSE "either"

VARIABLES win, ever, size, steps
Init == win = <<>> /\ ever = {} /\ size \in 1..MaxSize /\ steps = 0
Next == /\ steps < 6
        /\ \E id \in Ids :
          /\ win' = Touch(win, size, id) /\ ever' = ever \cup {id} /\ size' = size /\ steps' = steps + 1
          /\ (Export => PrintT(ToJson([size |-> size, w |-> win, e |-> ever, id |-> id, v |-> Verdict(win, ever, id), w2 |-> win', e2 |-> ever'])))
Spec == Init /\ [][Next]_<<win, ever, size, steps>>
WindowInv == Len(win) <= size /\ Cardinality(SeqRange(win)) = Len(win) /\ SeqRange(win) \subseteq ever
=============================================================================
