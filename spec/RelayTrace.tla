----------------------------- MODULE RelayTrace -----------------------------
(***************************************************************************)
(* Trace validation of end-to-end WebSocket sessions against the whole     *)
(* relay (RelayObs).                                                       *)
(***************************************************************************)
EXTENDS RelayObs, TraceBase
VARIABLES l, H
vars == <<l, H>>
Init == l = 1 /\ H = <<>> /\ HWMInit
Line == Trace[l]
Step(op) == l <= Len(Trace) /\ Line.op = op /\ l' = l + 1
TReset == Step("reset") /\ H' = <<>>
TEvent == /\ Step("ev")
          /\ H' = Append(H, [t |-> Line.t, c |-> Line.c, m |-> [Line.m EXCEPT !.fs = FiltersOf(Line.m.fs)]])
          /\ StepOK(H')
TQuiesce == Step("quiesce") /\ QuiesceOK(H) /\ UNCHANGED H
Next == TReset \/ TEvent \/ TQuiesce
Spec == Init /\ [][Next]_vars
See == HWMSee(l)
Accepted == HWMAccepted
=============================================================================
