---------------------------- MODULE SessionTrace ----------------------------
(***************************************************************************)
(* C13, code side: one line per real session that was cut and ended.  The  *)
(* observed end state must be the terminal state of module Session -- the  *)
(* serving call returned, every goroutine the session started is gone --   *)
(* and nothing of the session remains: router registry empty, connection   *)
(* and subscription gauges back to their previous values.                  *)
(***************************************************************************)
EXTENDS TraceBase
VARIABLE l
Init == l = 1 /\ HWMInit
Released(x) == /\ x.returned
               /\ x.goroutines_left = 0
               /\ x.registry_conns = 0 /\ x.registry_subs = 0
               /\ x.gauge_conn_delta = 0 /\ x.gauge_req_delta = 0
Next == l <= Len(Trace) /\ Released(Trace[l]) /\ l' = l + 1
Spec == Init /\ [][Next]_l
See == HWMSee(l)
Accepted == HWMAccepted
=============================================================================
