---------------------------- MODULE MatcherTrace ----------------------------
(***************************************************************************)
(* Trace validation of real matcher objects.                               *)
(* Lines: reset(fs) | match(e,res) | limitmatch(e,res) | done(res)         *)
(***************************************************************************)
EXTENDS Matcher, TraceBase

VARIABLES l, fs, cnt
vars == <<l, fs, cnt>>

Init == l = 1 /\ fs = <<>> /\ cnt = <<>> /\ HWMInit
Line == Trace[l]
Step(op) == l <= Len(Trace) /\ Line.op = op /\ l' = l + 1

TReset == /\ Step("reset")
          /\ fs' = FiltersOf(Line.fs)
          /\ cnt' = CntInit(FiltersOf(Line.fs))
TMatch == /\ Step("match")
          /\ Line.res = MatchesAny(Line.e, fs)
          /\ UNCHANGED <<fs, cnt>>
TLimitMatch == /\ Step("limitmatch")
               /\ Line.res = MatchesAny(Line.e, fs)
               /\ cnt' = CntAfter(fs, cnt, Line.e)
               /\ UNCHANGED fs
TDone == /\ Step("done")
         /\ Line.res = DoneOf(fs, cnt)
         /\ UNCHANGED <<fs, cnt>>

Next == TReset \/ TMatch \/ TLimitMatch \/ TDone
Spec == Init /\ [][Next]_vars
See == HWMSee(l)
Accepted == HWMAccepted
=============================================================================
