SPECIFICATION Spec
CONSTANTS
  MaxCap = 3
  Export = TRUE
INVARIANTS TypeOK Inv
PROPERTIES StepProp
VIEW View
CHECK_DEADLOCK FALSE
