----------------------------- MODULE MergeTrace -----------------------------
(***************************************************************************)
(* Trace validation of real NewMergeHandler executions against MergeObs.   *)
(* The harness records, with one global atomic counter, what the client    *)
(* and the scripted children observe (csnd before offering, cgot / chrecv  *)
(* after receiving, emits before a child offers a message); the lines are  *)
(* consumed in stamp order and every prefix must satisfy StepOK; the       *)
(* `quiesce' line (everything drained) must satisfy QuiesceOK.             *)
(***************************************************************************)
EXTENDS MergeObs, TraceBase

VARIABLES l, H, N
vars == <<l, H, N>>

Init == l = 1 /\ H = <<>> /\ N = 2 /\ HWMInit
Line == Trace[l]
Step(op) == l <= Len(Trace) /\ Line.op = op /\ l' = l + 1

TReset == Step("reset") /\ H' = <<>> /\ N' = Line.n
TEvent == /\ Step("ev")
          /\ H' = Append(H, [t |-> Line.t, ch |-> Line.ch, m |-> [Line.m EXCEPT !.fs = FiltersOf(Line.m.fs)]])
          /\ StepOK(H', N)
          /\ N' = N
TQuiesce == Step("quiesce") /\ QuiesceOK(H, N) /\ UNCHANGED <<H, N>>
\* real children (a router forwards live events on its own goroutine): the final sentinel
\* only flushes the replies, so only their completeness is judged
TQuiesceReplies == Step("quiesce_replies") /\ QuiesceRepliesOK(H, N) /\ UNCHANGED <<H, N>>

Next == TReset \/ TEvent \/ TQuiesce \/ TQuiesceReplies
Spec == Init /\ [][Next]_vars
See == HWMSee(l)
Accepted == HWMAccepted
=============================================================================
