SPECIFICATION Spec
INVARIANTS Inv
CONSTRAINT See
POSTCONDITION Accepted
CHECK_DEADLOCK FALSE
