---------------------------- MODULE MetricsTrace ----------------------------
(***************************************************************************)
(* Trace validation of real sessions through NewPrometheusMiddleware:      *)
(* start(s) | cmsg(s,type,kind,sub) | smsg(s,type,sub) | end(s) |          *)
(* observe(conn, req, recv, send, ev) -- the gathered registry values at a *)
(* quiescent point must equal the specification's.                         *)
(***************************************************************************)
EXTENDS Metrics, TraceBase
VARIABLES l, st
Init == l = 1 /\ st = MInit /\ HWMInit
Line == Trace[l]
Step(op) == l <= Len(Trace) /\ Line.op = op /\ l' = l + 1
TReset == Step("reset") /\ st' = MInit
TStart == Step("start") /\ st' = Start(st, Line.s)
TEnd   == Step("end") /\ Line.s \in st.live /\ st' = End(st, Line.s)
TCMsg  == Step("cmsg") /\ Line.s \in st.live /\ st' = CMsg(st, Line.s, Line.type, Line.kind, Line.sub)
TSMsg  == Step("smsg") /\ Line.s \in st.live /\ st' = SMsg(st, Line.s, Line.type, Line.sub)
TObserve == /\ Step("observe")
            /\ Line.conn = ConnGauge(st)
            /\ Line.req = ReqGauge(st)
            /\ \A t \in CTypes : Line.recv[t] = st.recv[t]
            /\ \A t \in STypes : Line.send[t] = st.send[t]
            /\ \A k \in Kinds  : Line.ev[k] = st.ev[k]
            /\ st' = st
Next == TReset \/ TStart \/ TEnd \/ TCMsg \/ TSMsg \/ TObserve
Spec == Init /\ [][Next]_<<l, st>>
See == HWMSee(l)
Accepted == HWMAccepted
=============================================================================
