------------------------------- MODULE FindInv -------------------------------
(***************************************************************************)
(* C15, large concurrent mixes: too wide for a linearisation search, but   *)
(* every listing a query returned while writers were running must by       *)
(* itself be retention-consistent: at most capacity events, one version    *)
(* per address, no event together with a deletion request of its author    *)
(* that references it, no ephemeral event, newest first.                   *)
(***************************************************************************)
EXTENDS Store, TraceBase
VARIABLES l
Init == l = 1 /\ HWMInit
Next == /\ l <= Len(Trace) /\ l' = l + 1
        /\ LET res == Trace[l].res   S == SeqRange(res) IN
           /\ Cardinality(S) = Len(res)
           /\ RetentionOK(S, Trace[l].cap)
           /\ \A i \in 1..(Len(res) - 1) : res[i].ts >= res[i + 1].ts
Spec == Init /\ [][Next]_l
See == HWMSee(l)
Accepted == HWMAccepted
=============================================================================
