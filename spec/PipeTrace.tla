------------------------------ MODULE PipeTrace ------------------------------
(***************************************************************************)
(* Trace validation of recorded sessions through real middleware stacks    *)
(* that ought to be transparent: reset | csend(m) | drecv(m) | demit(m) |  *)
(* cgot(m) | quiet.  m is the JSON text of the message.                    *)
(***************************************************************************)
EXTENDS Pipe, TraceBase
VARIABLES l, p
Init == l = 1 /\ p = PInit /\ HWMInit
Line == Trace[l]
Step(op) == l <= Len(Trace) /\ Line.op = op /\ l' = l + 1
TReset == Step("reset") /\ p' = PInit
TCSend == Step("csend") /\ p' = CSend(p, Line.m)
TDRecv == Step("drecv") /\ CanDRecv(p, Line.m) /\ p' = DRecv(p)
TDEmit == Step("demit") /\ p' = DEmit(p, Line.m)
TCGot  == Step("cgot") /\ CanCGot(p, Line.m) /\ p' = CGot(p)
TQuiet == Step("quiet") /\ Quiet(p) /\ p' = p
Next == TReset \/ TCSend \/ TDRecv \/ TDEmit \/ TCGot \/ TQuiet
Spec == Init /\ [][Next]_<<l, p>>
See == HWMSee(l)
Accepted == HWMAccepted
=============================================================================
