------------------------------ MODULE MatchMC ------------------------------
(***************************************************************************)
(* C02: the NIP-01 match predicate (Nostr!Matches) evaluated by TLC over a *)
(* complete small universe of events x filters.  Every filter of the slice *)
(* {i : i % Stride = Offset} is exported together with the set of indices  *)
(* of the events it matches; the harness concretises both and compares     *)
(* with mocrelay's NewReqFilterMatcher(f).Match(e) for every pair.         *)
(***************************************************************************)
EXTENDS Nostr, Json

CONSTANTS Stride, Offset

Tg(n, v) == [name |-> n, val |-> v, n |-> 2]
Tg1(n)   == [name |-> n, val |-> "", n |-> 1]

TagAtoms == << Tg("t", "x"), Tg("t", "y"), Tg("p", "a"), Tg1("t") >>
\* all tag sequences of length <= 2 : 1 + 4 + 16 = 21
TagSeqs == << <<>> >>
           \o [k \in 1..4 |-> << TagAtoms[k] >>]
           \o [k \in 1..16 |-> << TagAtoms[((k - 1) \div 4) + 1], TagAtoms[((k - 1) % 4) + 1] >>]

IdL == <<"i1", "i2">>   AuL == <<"a", "b">>   KiL == <<1, 2>>
NE == 2 * 2 * 2 * 3 * 21
EvAt(j) == LET k == j - 1 IN
  [id     |-> IdL[(k % 2) + 1],
   author |-> AuL[((k \div 2) % 2) + 1],
   kind   |-> KiL[((k \div 4) % 2) + 1],
   ts     |-> ((k \div 8) % 3) + 1,
   tags   |-> TagSeqs[((k \div 24) % 21) + 1]]

Abs == [p |-> FALSE, s |-> {}]
IdsO == << Abs, [p |-> TRUE, s |-> {}], [p |-> TRUE, s |-> {"i1"}], [p |-> TRUE, s |-> {"i1", "i2"}] >>
AuO  == << Abs, [p |-> TRUE, s |-> {}], [p |-> TRUE, s |-> {"b"}],  [p |-> TRUE, s |-> {"a", "b"}] >>
KiO  == << Abs, [p |-> TRUE, s |-> {}], [p |-> TRUE, s |-> {2}],    [p |-> TRUE, s |-> {1, 2}] >>
\* tag conditions: #t in {absent, {}, {x}, {x,y}, {y}} ; #p in {absent, {a}, {}}
TtO == << [p |-> FALSE, s |-> {}], [p |-> TRUE, s |-> {}], [p |-> TRUE, s |-> {"x"}],
          [p |-> TRUE, s |-> {"x", "y"}], [p |-> TRUE, s |-> {"y"}] >>
TpO == << [p |-> FALSE, s |-> {}], [p |-> TRUE, s |-> {"a"}], [p |-> TRUE, s |-> {}] >>
TiO == << [p |-> FALSE, v |-> 0], [p |-> TRUE, v |-> 1], [p |-> TRUE, v |-> 2], [p |-> TRUE, v |-> 3] >>

NF == 4 * 4 * 4 * 5 * 3 * 4 * 4

TagsOf(tt, tp) == [n \in ((IF tt.p THEN {"t"} ELSE {}) \cup (IF tp.p THEN {"p"} ELSE {}))
                     |-> IF n = "t" THEN tt.s ELSE tp.s]

FilterAt(i) ==
  [ids     |-> IdsO[(i % 4) + 1],
   authors |-> AuO[((i \div 4) % 4) + 1],
   kinds   |-> KiO[((i \div 16) % 4) + 1],
   tags    |-> TagsOf(TtO[((i \div 64) % 5) + 1], TpO[((i \div 320) % 3) + 1]),
   since   |-> TiO[((i \div 960) % 4) + 1],
   until   |-> TiO[((i \div 3840) % 4) + 1],
   limit   |-> [p |-> FALSE, v |-> 0]]

\* A second, smaller table for the "for every #x entry" clause: three tag names, every tag
\* sequence of length 3 over {t:x, p:a, r:z, t:y}, every subset of {#t:{x}, #p:{a}, #r:{z}}.
Atoms3 == << Tg("t", "x"), Tg("p", "a"), Tg("r", "z"), Tg("t", "y") >>
NE3 == 64
Ev3At(j) == LET k == j - 1 IN
  [id |-> "i1", author |-> "a", kind |-> 1, ts |-> 1,
   tags |-> << Atoms3[(k % 4) + 1], Atoms3[((k \div 4) % 4) + 1], Atoms3[((k \div 16) % 4) + 1] >>]
F3At(b) == [ids |-> Abs, authors |-> Abs, kinds |-> Abs,
            tags |-> [n \in ((IF b % 2 = 1 THEN {"t"} ELSE {}) \cup (IF (b \div 2) % 2 = 1 THEN {"p"} ELSE {}) \cup (IF (b \div 4) % 2 = 1 THEN {"r"} ELSE {}))
                        |-> IF n = "t" THEN {"x"} ELSE IF n = "p" THEN {"a"} ELSE {"z"}],
            since |-> [p |-> FALSE, v |-> 0], until |-> [p |-> FALSE, v |-> 0], limit |-> [p |-> FALSE, v |-> 0]]

VARIABLE i

Init == /\ i \in {k \in 0..(NF - 1) : k % Stride = Offset} \cup {-2}
Next == \/ /\ i >= 0
           /\ PrintT(ToJson([i |-> i, f |-> FilterAt(i),
                             m |-> {j \in 1..NE : Matches(EvAt(j), FilterAt(i))}]))
           /\ i' = -1
        \/ /\ i = -2
           /\ PrintT(ToJson([events |-> [j \in 1..NE |-> EvAt(j)]]))
           /\ PrintT(ToJson([events3 |-> [j \in 1..NE3 |-> Ev3At(j)]]))
           /\ \A b \in 0..7 : PrintT(ToJson([i3 |-> b, f |-> F3At(b), m |-> {j \in 1..NE3 : Matches(Ev3At(j), F3At(b))}]))
           /\ i' = -1
Spec == Init /\ [][Next]_i

\* sanity properties of the predicate itself, checked on the slice
EmptyListMatchesNothing ==
  i >= 0 => LET f == FilterAt(i) IN
     ((f.ids.p /\ f.ids.s = {}) \/ (f.authors.p /\ f.authors.s = {}) \/ (f.kinds.p /\ f.kinds.s = {})
       \/ \E n \in DOMAIN f.tags : f.tags[n] = {})
       => \A j \in 1..NE : ~Matches(EvAt(j), f)
=============================================================================
