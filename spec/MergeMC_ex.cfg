SPECIFICATION Spec
CONSTANTS
  N = 2
  MaxClient = 2
  Mode = "req"
  Small = TRUE
INVARIANTS MonitorOK QuiesceInv StateInv NoLeak
CHECK_DEADLOCK FALSE
