----------------------------- MODULE MatcherMC -----------------------------
(***************************************************************************)
(* Exhaustive model of the limit-counting matcher: filter lists of length  *)
(* 1..2 over {all, kind 1, kind 2, nothing} x limit {absent,0,1,2}, event  *)
(* sequences of length <= MaxLen over three events.  Checks: Done is       *)
(* monotone, and exhausted <=> every filter has a limit that was reached.  *)
(* The behaviours are also exported (history variable) and replayed on     *)
(* the real matcher by the harness.                                        *)
(***************************************************************************)
EXTENDS Matcher, Json
CONSTANTS MaxLen, Export

Ev(i, k) == [id |-> i, author |-> "a", kind |-> k, ts |-> 1, tags |-> <<>>]
Events == {Ev("i1", 1), Ev("i2", 2), Ev("i3", 3)}
Abs == [p |-> FALSE, s |-> {}]
NoI == [p |-> FALSE, v |-> 0]
F(ks, lim) == [ids |-> Abs, authors |-> Abs, kinds |-> ks, tags |-> <<>>, since |-> NoI, until |-> NoI, limit |-> lim]
KindOpts == {Abs, [p |-> TRUE, s |-> {1}], [p |-> TRUE, s |-> {2}], [p |-> TRUE, s |-> {}], [p |-> TRUE, s |-> {1, 2}]}
LimOpts  == {NoI, [p |-> TRUE, v |-> 0], [p |-> TRUE, v |-> 1], [p |-> TRUE, v |-> 2]}
IdF(lm)  == [ids |-> [p |-> TRUE, s |-> {"i1"}], authors |-> Abs, kinds |-> Abs, tags |-> <<>>, since |-> NoI, until |-> NoI, limit |-> lm]
Filters  == {F(k, lm) : k \in KindOpts, lm \in LimOpts} \cup {IdF(lm) : lm \in LimOpts}
Lists    == {<<f>> : f \in Filters} \cup {<<f, g>> : f \in Filters, g \in Filters}

VARIABLES fs, cnt, hist
vars == <<fs, cnt, hist>>
Init == fs \in Lists /\ cnt = CntInit(fs) /\ hist = <<>>
Next == /\ Len(hist) < MaxLen
        /\ \E e \in Events :
             /\ cnt' = CntAfter(fs, cnt, e)
             /\ hist' = Append(hist, [e |-> e, res |-> MatchesAny(e, fs), done |-> DoneOf(fs, cnt')])
             /\ fs' = fs
             /\ (Export /\ Len(hist') = MaxLen) => PrintT(ToJson([fs |-> fs, hist |-> hist']))
Spec == Init /\ [][Next]_vars

DoneMonotone == [][DoneOf(fs, cnt) => DoneOf(fs', cnt')]_vars
DoneExact == DoneOf(fs, cnt) <=>
               \A i \in DOMAIN fs : fs[i].limit.p /\
                  Cardinality({j \in DOMAIN hist : Matches(hist[j].e, fs[i])}) >= fs[i].limit.v
NoShortCircuit == \A i \in DOMAIN fs : cnt[i] = Cardinality({j \in DOMAIN hist : Matches(hist[j].e, fs[i])})
=============================================================================
