SPECIFICATION Spec
CONSTANTS
  N = 2
  MaxClient = 3
  Mode = "ok"
  Small = FALSE
INVARIANTS MonitorOK QuiesceInv StateInv NoLeak
CHECK_DEADLOCK FALSE
