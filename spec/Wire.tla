-------------------------------- MODULE Wire --------------------------------
(***************************************************************************)
(* C11 (admission) and the structured half of C10 (codec): the client      *)
(* message grammar of NIP-01 as data.  An abstract message fixes, for      *)
(* every syntactic position, a *status* (how that position is written);    *)
(* each status is well-formed ("ok"), ill-formed ("bad": the gate must     *)
(* reject the message) or not claimed by the property ("open").            *)
(*   Verdict(m) = reject if some position is bad, accept if all are ok,    *)
(*                any otherwise.                                           *)
(* TLC enumerates every baseline (each ok status of each position once,    *)
(* every whitespace placement) and every single-point corruption of it     *)
(* (pairs too when Pairs = TRUE) and exports them with their verdict; the  *)
(* harness renders each as JSON text and runs ParseClientMsg +             *)
(* ValidClientMsg.                                                         *)
(***************************************************************************)
EXTENDS Integers, Sequences, FiniteSets, TLC, Json

CONSTANTS Pairs

\* position -> status -> class
\* udigit: one character replaced by a two-byte non-ASCII decimal digit and one dropped (the byte length is still right)
HexV  == [ok |-> "ok", upper |-> "bad", short |-> "bad", long |-> "bad", nonhex |-> "bad", udigit |-> "bad", empty |-> "bad", number |-> "bad"]
KindV == [k0 |-> "ok", k1 |-> "ok", k65535 |-> "ok", neg |-> "bad", k65536 |-> "bad", big |-> "bad",
          float |-> "bad", string |-> "bad", exp |-> "open", wrap32 |-> "bad"]
TsV   == [t0 |-> "ok", now |-> "ok", big |-> "ok", neg |-> "open", float |-> "bad", string |-> "bad"]
TagsV == [none |-> "ok", one |-> "ok", multi |-> "ok", nameonly |-> "ok", emptyval |-> "ok",
          emptytag |-> "open", emptyname |-> "open", numelem |-> "bad", notarray |-> "bad", innernotarray |-> "bad"]
ContV == [empty |-> "ok", ascii |-> "ok", unicode |-> "ok", escapes |-> "ok", number |-> "bad"]
MembV == [exact |-> "ok", missing |-> "bad", extra |-> "bad", dupkey |-> "open"]
ObjV  == [object |-> "ok", null |-> "open", array |-> "bad", string |-> "bad"]

EventV == [id |-> HexV, pubkey |-> HexV, sig |-> HexV, kind |-> KindV, created_at |-> TsV,
           tags |-> TagsV, content |-> ContV, members |-> MembV, obj |-> ObjV]
EventBase == [id |-> "ok", pubkey |-> "ok", sig |-> "ok", kind |-> "k1", created_at |-> "now",
              tags |-> "one", content |-> "ascii", members |-> "exact", obj |-> "object"]

ListV  == [absent |-> "ok", one |-> "ok", two |-> "ok", empty |-> "ok", upper |-> "bad", short |-> "bad", udigit |-> "bad",
           number |-> "bad", notarray |-> "bad", null |-> "open"]
KindsV == [absent |-> "ok", one |-> "ok", multi |-> "ok", empty |-> "ok", neg |-> "bad", k65536 |-> "bad", wrap32 |-> "bad",
           float |-> "bad", string |-> "bad", notarray |-> "bad"]
TagEV  == [absent |-> "ok", ok |-> "ok", empty |-> "ok", badid |-> "open", number |-> "bad", notarray |-> "bad"]
TagTV  == [absent |-> "ok", ok |-> "ok", emptystr |-> "ok", empty |-> "ok", upperkey |-> "ok", number |-> "bad", notarray |-> "bad"]
TagAV  == [absent |-> "ok", ok |-> "ok", dcolon |-> "ok", emptyd |-> "ok", kind0emptyd |-> "ok", kindwrap |-> "bad", twoparts |-> "open",
           badkind |-> "bad", kindrange |-> "bad", badpk |-> "bad", upperpk |-> "bad", udigitpk |-> "bad"]
KeyV   == [none |-> "ok", unknown |-> "bad", multiletter |-> "bad", hashonly |-> "bad", emptykey |-> "bad", digit |-> "open"]
NumV   == [absent |-> "ok", zero |-> "ok", ok |-> "ok", neg |-> "bad", float |-> "bad", string |-> "bad"]
RelV   == [na |-> "ok", inverted |-> "open"]       \* since > until (both present and ok)

FilterV == [ids |-> ListV, authors |-> ListV, kinds |-> KindsV, tage |-> TagEV, tagp |-> TagEV, tagt |-> TagTV,
            taga |-> TagAV, key |-> KeyV, since |-> NumV, until |-> NumV, limit |-> NumV, rel |-> RelV, obj |-> ObjV]
FilterBase == [ids |-> "absent", authors |-> "absent", kinds |-> "absent", tage |-> "absent", tagp |-> "absent",
               tagt |-> "absent", taga |-> "absent", key |-> "none", since |-> "absent", until |-> "absent",
               limit |-> "absent", rel |-> "na", obj |-> "object"]
FilterFull == [ids |-> "two", authors |-> "one", kinds |-> "multi", tage |-> "ok", tagp |-> "ok",
               tagt |-> "ok", taga |-> "ok", key |-> "none", since |-> "ok", until |-> "ok",
               limit |-> "ok", rel |-> "na", obj |-> "object"]

LabelV == [ok |-> "ok", lower |-> "bad", unknown |-> "bad", number |-> "bad"]
SubV   == [ok |-> "ok", unicode |-> "ok", empty |-> "open", long |-> "open", number |-> "bad"]
ArityV == [ok |-> "ok", short |-> "bad", long |-> "bad"]
TopV   == [array |-> "ok", object |-> "bad", string |-> "bad", emptyarray |-> "bad"]
WsV    == [none |-> "ok", leading |-> "ok", trailing |-> "ok", inner |-> "ok", newline |-> "ok", tabcr |-> "ok",
           longleading |-> "ok", longinner |-> "ok"]      \* hundreds of bytes of insignificant whitespace
NFilV  == [one |-> "ok", two |-> "ok", zero |-> "open"]

Types == {"EVENT", "REQ", "CLOSE", "AUTH", "COUNT"}
HasEvent(t)   == t \in {"EVENT", "AUTH"}
HasFilters(t) == t \in {"REQ", "COUNT"}

\* a message: envelope positions + an event or two filters
EnvV == [label |-> LabelV, sub |-> SubV, arity |-> ArityV, top |-> TopV, ws |-> WsV, nfil |-> NFilV]
EnvBase == [label |-> "ok", sub |-> "ok", arity |-> "ok", top |-> "array", ws |-> "none", nfil |-> "one"]
Msg(t, env, ev, f1, f2) == [type |-> t, env |-> env, ev |-> ev, f1 |-> f1, f2 |-> f2]
Base(t) == Msg(t, EnvBase, EventBase, FilterBase, FilterFull)

\* positions that exist for a type
EnvPos(t) == {"label", "top", "ws"} \cup (IF HasFilters(t) \/ t = "CLOSE" THEN {"sub"} ELSE {})
                \cup (IF HasFilters(t) THEN {"nfil"} ELSE {"arity"})

\* since > until is not claimed either way: it arises from rel = inverted (since 300, until 200)
\* and from since = ok (100) with until = zero
Inverted(f) == \/ f.rel = "inverted" /\ f.since = "ok" /\ f.until = "ok"
               \/ f.since = "ok" /\ f.until = "zero"
\* a filter (event) that is not rendered as a JSON object has no other positions: they are masked
FilterClasses(f) == IF f.obj # "object" THEN {ObjV[f.obj]}
                    ELSE {FilterV[p][f[p]] : p \in DOMAIN FilterV \ {"rel"}}
                           \cup {IF Inverted(f) THEN "open" ELSE "ok"}
EventClasses(e)  == IF e.obj # "object" THEN {ObjV[e.obj]} ELSE {EventV[p][e[p]] : p \in DOMAIN EventV}
Classes(m) ==
  {EnvV[p][m.env[p]] : p \in EnvPos(m.type)}
  \cup (IF HasEvent(m.type) THEN EventClasses(m.ev) ELSE {})
  \cup (IF HasFilters(m.type) /\ m.env.nfil # "zero" THEN FilterClasses(m.f1) ELSE {})
  \cup (IF HasFilters(m.type) /\ m.env.nfil = "two" THEN FilterClasses(m.f2) ELSE {})

Verdict(m) == IF "bad" \in Classes(m) THEN "reject"
              ELSE IF "open" \in Classes(m) THEN "any" ELSE "accept"

\* all single-position variants of a message
Over(P, V, F(_, _)) == UNION {{F(p, st) : st \in DOMAIN V[p]} : p \in P}
Variants(m) ==
  Over(EnvPos(m.type), EnvV, LAMBDA p, st : [m EXCEPT !.env[p] = st])
  \cup (IF HasEvent(m.type) THEN Over(DOMAIN EventV, EventV, LAMBDA p, st : [m EXCEPT !.ev[p] = st]) ELSE {})
  \cup (IF HasFilters(m.type)
        THEN Over(DOMAIN FilterV, FilterV, LAMBDA p, st : [m EXCEPT !.f1[p] = st])
             \cup Over(DOMAIN FilterV, FilterV, LAMBDA p, st : [m EXCEPT !.env.nfil = "two", !.f2[p] = st])
             \cup Over(DOMAIN FilterV, FilterV, LAMBDA p, st : [m EXCEPT !.f1 = [FilterFull EXCEPT ![p] = st]])
        ELSE {})

Singles == UNION {Variants(Base(t)) : t \in Types}
\* (operators with a parameter, so that TLC does not evaluate the large set at start-up)
Doubles(S) == UNION {Variants(m) : m \in S}
Cases(p)   == IF p THEN Doubles(Singles) ELSE Singles

\* sanity of the verdict function itself
ASSUME \A t \in Types : Verdict(Base(t)) = "accept"
ASSUME \A m \in Singles : Verdict(m) = "accept" => \A p \in EnvPos(m.type) : EnvV[p][m.env[p]] = "ok"

---------------------------------------------------------------------------
(* Server messages (C10 round trip): every type with every value class of  *)
(* its fields.  All of them are well-formed values: encode, decode, equal. *)
StrC    == {"empty", "ascii", "unicode", "escapes"}
PrefixC == {"none", "duplicate", "blocked", "error", "invalid", "pow", "ratelimited", "lookalike", "doubled"}
CountC  == {"zero", "small", "big53", "max63"}
ApproxC == {"absent", "true", "false"}
Srv(t, str, pre, acc, cnt, apx) == [type |-> t, str |-> str, prefix |-> pre, acc |-> acc, count |-> cnt, approx |-> apx]
ServerCases ==
     {Srv("OK", x, p, a, "zero", "absent") : x \in StrC, p \in PrefixC, a \in BOOLEAN}
  \cup {Srv("CLOSED", x, p, TRUE, "zero", "absent") : x \in StrC, p \in PrefixC}
  \cup {Srv("COUNT", x, "none", TRUE, c, a) : x \in StrC, c \in CountC, a \in ApproxC}
  \cup {Srv(t, x, "none", TRUE, "zero", "absent") : t \in {"EVENT", "EOSE", "NOTICE", "AUTH"}, x \in StrC}

VARIABLE todo
Init == todo = Cases(Pairs)
Next == /\ todo # {}
        /\ todo' = {}
        /\ \A x \in todo : PrintT(ToJson([m |-> x, verdict |-> Verdict(x)]))
        /\ \A x \in ServerCases : PrintT(ToJson([srv |-> x]))
Spec == Init /\ [][Next]_todo
=============================================================================
