------------------------------- MODULE Limits -------------------------------
(***************************************************************************)
(* C17: the stateless limit middlewares as a decision function, their      *)
(* stacking, and the chain BuildMiddlewareFromNIP11 builds.                *)
(* An abstract client message fixes the sizes the limits look at:          *)
(*   [type, nf (filters), lim (largest filter limit, -1 = none),           *)
(*    subl (subscription id length), ntags, clen (content bytes),          *)
(*    age (seconds in the past, negative = in the future)]                 *)
(* Decide(mw, m) = "fwd" | "okfalse" (OK false with the event id) |        *)
(*                 "closed" (CLOSED with the subscription id).             *)
(* A stack (outermost first) rejects with the first rejecting member's     *)
(* answer and forwards nothing; everything else passes unchanged.          *)
(***************************************************************************)
EXTENDS Integers, Sequences, FiniteSets, TLC, Json

Mw(k, l) == [k |-> k, l |-> l]
IsQuery(m) == m.type \in {"REQ", "COUNT"}

Decide(mw, m) ==
  CASE mw.k = "maxfilters" -> IF IsQuery(m) /\ m.nf > mw.l THEN "closed" ELSE "fwd"
    [] mw.k = "maxlimit"   -> IF IsQuery(m) /\ m.lim > mw.l THEN "closed" ELSE "fwd"
    [] mw.k = "maxsubid"   -> IF IsQuery(m) /\ m.subl > mw.l THEN "closed" ELSE "fwd"
    [] mw.k = "maxtags"    -> IF m.type = "EVENT" /\ m.ntags > mw.l THEN "okfalse" ELSE "fwd"
    [] mw.k = "maxcontent" -> IF m.type = "EVENT" /\ m.clen > mw.l THEN "okfalse" ELSE "fwd"
    [] mw.k = "lower"      -> IF m.type = "EVENT" /\ m.age > mw.l THEN "okfalse" ELSE "fwd"
    [] mw.k = "upper"      -> IF m.type = "EVENT" /\ (0 - m.age) > mw.l THEN "okfalse" ELSE "fwd"
    \* the window middleware NewEventCreatedAtMiddleware(from, to) with from = -l seconds and to = 0 ("not from the future")
    [] mw.k = "window0"    -> IF m.type = "EVENT" /\ (m.age > mw.l \/ m.age < 0) THEN "okfalse" ELSE "fwd"
    [] OTHER               -> "fwd"

RECURSIVE StackDecide(_, _)
StackDecide(stack, m) == IF stack = <<>> THEN "fwd"
                         ELSE IF Decide(Head(stack), m) # "fwd" THEN Decide(Head(stack), m)
                         ELSE StackDecide(Tail(stack), m)

\* The chain of a NIP-11 limitation block, outermost first (the code nests in
\* this order); a limit of 0 is "not set"; no block at all = identity.
Chain(lim) == IF ~lim.present THEN <<>>
  ELSE SelectSeq(<< Mw("upper", lim.upper), Mw("lower", lim.lower), Mw("maxcontent", lim.content), Mw("maxtags", lim.tags),
                    Mw("maxlimit", lim.maxlimit), Mw("maxfilters", lim.filters) >>, LAMBDA w : w.l # 0)

---------------------------------------------------------------------------
Kinds == {"maxfilters", "maxlimit", "maxsubid", "maxtags", "maxcontent", "lower", "upper", "window0"}
LimitVals(k) == IF k \in {"lower", "upper", "window0"} THEN {60, 3600} ELSE {1, 2, 5}

BaseMsg(t) == [type |-> t, nf |-> 1, lim |-> -1, subl |-> 1, ntags |-> 0, clen |-> 0, age |-> 0]
\* sizes below / at / above a limit l (time limits: a safety margin of 5 s around the moving boundary)
Around(k, l) == IF k \in {"lower", "upper"} THEN {l - 5, l + 5} ELSE IF k = "window0" THEN {l - 5, l + 5, 5, 0 - 5} ELSE {l - 1, l, l + 1}
Sized(t, k, v) ==
  CASE k = "maxfilters" -> [BaseMsg(t) EXCEPT !.nf = v]
    [] k = "maxlimit"   -> [BaseMsg(t) EXCEPT !.lim = v]
    [] k = "maxsubid"   -> [BaseMsg(t) EXCEPT !.subl = v]
    [] k = "maxtags"    -> [BaseMsg(t) EXCEPT !.ntags = v]
    [] k = "maxcontent" -> [BaseMsg(t) EXCEPT !.clen = v]
    [] k = "lower"      -> [BaseMsg(t) EXCEPT !.age = v]
    [] k = "upper"      -> [BaseMsg(t) EXCEPT !.age = 0 - v]
    [] k = "window0"    -> [BaseMsg(t) EXCEPT !.age = v]
Types == {"EVENT", "REQ", "COUNT", "CLOSE", "AUTH"}

\* Extreme stands for the far end of the int64 range of created_at (age Extreme: the oldest possible
\* timestamp, age -Extreme: the newest); the harness maps it, TLC integers being 32 bit
Extreme == 2000000000
SingleCases == {[stack |-> <<Mw(k, l)>>, m |-> Sized(t, k, v), d |-> Decide(Mw(k, l), Sized(t, k, v))] :
                  k \in Kinds, l \in {1, 2, 5, 60, 3600}, t \in Types, v \in {0, 1, 2, 3, 4, 5, 6, 55, 65, 3595, 3605, 0 - 5, Extreme, 0 - Extreme}}
RelevantSingle == {c \in SingleCases : c.stack[1].l \in LimitVals(c.stack[1].k) /\ c.m[CASE c.stack[1].k = "maxfilters" -> "nf" [] c.stack[1].k = "maxlimit" -> "lim"
                      [] c.stack[1].k = "maxsubid" -> "subl" [] c.stack[1].k = "maxtags" -> "ntags" [] c.stack[1].k = "maxcontent" -> "clen" [] OTHER -> "age"]
                      \in (IF c.stack[1].k = "upper" THEN {0 - x : x \in Around(c.stack[1].k, c.stack[1].l) \cup {Extreme, 0 - Extreme}}
                           ELSE IF c.stack[1].k \in {"lower", "window0"} THEN Around(c.stack[1].k, c.stack[1].l) \cup {Extreme, 0 - Extreme}
                           ELSE Around(c.stack[1].k, c.stack[1].l))
                      /\ (c.stack[1].k \in {"maxfilters"} => c.m.nf >= 1) /\ (c.stack[1].k = "maxsubid" => c.m.subl >= 0)}

\* stacks of two different middlewares, both orders, message violating none / one / both
PairMsgs == {[type |-> t, nf |-> nf, lim |-> lim, subl |-> 1, ntags |-> nt, clen |-> cl, age |-> 0] :
               t \in {"EVENT", "REQ", "COUNT"}, nf \in {1, 3}, lim \in {-1, 3}, nt \in {0, 3}, cl \in {0, 3}}
PairCases == {[stack |-> <<Mw(k1, 2), Mw(k2, 2)>>, m |-> m, d |-> StackDecide(<<Mw(k1, 2), Mw(k2, 2)>>, m)] :
                k1 \in {"maxfilters", "maxlimit", "maxtags", "maxcontent"}, k2 \in {"maxfilters", "maxlimit", "maxtags", "maxcontent"}, m \in PairMsgs}

\* NIP-11 limitation blocks: every subset of the six stateless limits set (value 2; times 60), or no block
Blk(p, u, lo, c, tg, ml, f) == [present |-> p, upper |-> u, lower |-> lo, content |-> c, tags |-> tg, maxlimit |-> ml, filters |-> f]
NoBlock == Blk(FALSE, 0, 0, 0, 0, 0, 0)
Blocks == {NoBlock} \cup {Blk(TRUE, u, lo, c, tg, ml, f) :
                          u \in {0, 60}, lo \in {0, 60}, c \in {0, 2}, tg \in {0, 2}, ml \in {0, 2}, f \in {0, 2}}
NipMsgs == PairMsgs \cup {[type |-> "EVENT", nf |-> 1, lim |-> -1, subl |-> 1, ntags |-> 0, clen |-> 0, age |-> a] : a \in {-65, -55, 0, 55, 65}}
NipCases == {[block |-> b, m |-> m, d |-> StackDecide(Chain(b), m)] : b \in Blocks, m \in NipMsgs}

\* properties of the decision function itself
ASSUME \A c \in RelevantSingle : c.m.type \in {"CLOSE", "AUTH"} => c.d = "fwd"
ASSUME \A c \in PairCases : (c.d = "fwd") <=> (Decide(c.stack[1], c.m) = "fwd" /\ Decide(c.stack[2], c.m) = "fwd")
ASSUME \A m \in NipMsgs : StackDecide(Chain(NoBlock), m) = "fwd"

VARIABLE done
Init == done = FALSE
Next == /\ ~done /\ done' = TRUE
        /\ \A c \in RelevantSingle : PrintT(ToJson([single |-> c]))
        /\ \A c \in PairCases : PrintT(ToJson([pair |-> c]))
        /\ \A c \in NipCases : PrintT(ToJson([nip |-> c]))
Spec == Init /\ [][Next]_done
=============================================================================
