------------------------------- MODULE Nostr -------------------------------
(***************************************************************************)
(* Shared vocabulary of all mocrelay specifications: events, event         *)
(* classes, addresses, deletion references, the NIP-01 filter predicate    *)
(* and the "answer of a query" relation (limit newest per filter, merged,  *)
(* ordered) that C03 / C06 / C16 are stated with.                          *)
(*                                                                         *)
(* Abstract values                                                         *)
(*   event  : [id, author : STRING, kind, ts : Int,                        *)
(*             tags : Seq([name, val : STRING, n : Int])]                   *)
(*            n is the number of elements of the concrete tag (1 = name    *)
(*            only, then val = ""), 3 = an extra element such as a relay.  *)
(*   filter : [ids, authors, kinds : [p : BOOLEAN, s : SUBSET ...],        *)
(*             tags : [names -> SUBSET STRING],                            *)
(*             since, until, limit : [p : BOOLEAN, v : Int]]               *)
(* Address strings are built with \o exactly like the concrete             *)
(* "kind:pubkey:d", so an `a' tag value can be compared with Addr(e).      *)
(***************************************************************************)
EXTENDS Integers, Sequences, FiniteSets, TLC

Range(s) == {s[i] : i \in DOMAIN s}

Class(k) == IF k = 0 \/ k = 3 \/ (10000 <= k /\ k < 20000) THEN "replaceable"
            ELSE IF 20000 <= k /\ k < 30000 THEN "ephemeral"
            ELSE IF 30000 <= k /\ k < 40000 THEN "addressable"
            ELSE "regular"

NoAddr == "-"

DTags(e) == SelectSeq(e.tags, LAMBDA t : t.name = "d")
DVal(e)  == IF DTags(e) = <<>> THEN "" ELSE DTags(e)[1].val   \* missing d read as empty d

Addr(e) == CASE Class(e.kind) = "replaceable" -> ToString(e.kind) \o ":" \o e.author \o ":"
             [] Class(e.kind) = "addressable" -> ToString(e.kind) \o ":" \o e.author \o ":" \o DVal(e)
             [] OTHER -> NoAddr

\* Two events occupy the same retention slot: same id, or same address.
SameSlot(x, e) == x.id = e.id \/ (Addr(e) # NoAddr /\ Addr(x) = Addr(e))

\* References of a deletion request.  A reference needs a value, i.e. at
\* least two tag elements; extra elements (relay hints) do not matter.
ERefs(k) == {t.val : t \in {u \in Range(k.tags) : u.name = "e" /\ u.n >= 2}}
ARefs(k) == {t.val : t \in {u \in Range(k.tags) : u.name = "a" /\ u.n >= 2}}

\* k is a deletion request that removes / blocks x.  Address references are
\* only claimed for addressable events (kind:pubkey:d), cf. C05.
Hits(k, x) == /\ k.kind = 5
              /\ k.author = x.author
              /\ k.id # x.id
              /\ \/ x.id \in ERefs(k)
                 \/ Class(x.kind) = "addressable" /\ Addr(x) \in ARefs(k)

---------------------------------------------------------------------------
(* NIP-01 filter predicate (C02) *)

TagVals(e, n) == {t.val : t \in {u \in Range(e.tags) : u.name = n}}

Matches(e, f) ==
  /\ f.ids.p     => e.id     \in f.ids.s
  /\ f.authors.p => e.author \in f.authors.s
  /\ f.kinds.p   => e.kind   \in f.kinds.s
  /\ \A n \in DOMAIN f.tags : TagVals(e, n) \cap f.tags[n] # {}
  /\ f.since.p   => f.since.v <= e.ts
  /\ f.until.p   => e.ts <= f.until.v

MatchesAny(e, fs) == \E i \in DOMAIN fs : Matches(e, fs[i])

---------------------------------------------------------------------------
(* The answer of a query over a set S of events (C03, C06, C16).           *)
(* For filter f: the Quota(S,f) newest members of M(S,f).  When several    *)
(* events tie at the threshold timestamp any choice among them is valid.   *)

M(S, f) == {e \in S : Matches(e, f)}

Quota(S, f) == LET c == Cardinality(M(S, f))
               IN IF f.limit.p /\ f.limit.v < c THEN f.limit.v ELSE c

\* created_at of the Quota-th newest match (only used when 0 < Quota)
Thresh(S, f) ==
  CHOOSE t \in {e.ts : e \in M(S, f)} :
     /\ Cardinality({e \in M(S, f) : e.ts >  t}) <  Quota(S, f)
     /\ Cardinality({e \in M(S, f) : e.ts >= t}) >= Quota(S, f)

Forced(S, f) == IF Quota(S, f) = 0 THEN {}
                ELSE {e \in M(S, f) : e.ts > Thresh(S, f)}
Ties(S, f)   == IF Quota(S, f) = 0 THEN {}
                ELSE {e \in M(S, f) : e.ts = Thresh(S, f)}
\* how many of the tied events the filter takes
TieNeed(S, f) == Quota(S, f) - Cardinality(Forced(S, f))

\* The unique answer when no tie straddles a threshold
TieFree(S, fs) == \A i \in DOMAIN fs : TieNeed(S, fs[i]) = Cardinality(Ties(S, fs[i]))
ExactAnswer(S, fs) == UNION {Forced(S, fs[i]) \cup Ties(S, fs[i]) : i \in DOMAIN fs}

\* R is the union over the filters of (Forced_i \cup T_i) for some choice of
\* T_i \subseteq Ties_i with |T_i| = TieNeed_i.  Equivalent formulation: every
\* forced event is in R, R is inside Forced \cup Ties, each filter finds enough
\* tied events in R, and the events of R that no filter forces can be charged
\* to filters (g) without exceeding any filter's TieNeed.
AnswerSetOK(R, S, fs) ==
  LET F  == UNION {Forced(S, fs[i]) : i \in DOMAIN fs}
      Rp == R \ F
  IN /\ F \subseteq R
     /\ R \subseteq F \cup UNION {Ties(S, fs[i]) : i \in DOMAIN fs}
     /\ \A i \in DOMAIN fs : Cardinality(R \cap Ties(S, fs[i])) >= TieNeed(S, fs[i])
     /\ IF Rp = {} THEN TRUE
        ELSE \E g \in [Rp -> DOMAIN fs] :
               /\ \A r \in Rp : r \in Ties(S, fs[g[r]])
               /\ \A i \in DOMAIN fs :
                    Cardinality({r \in Rp : g[r] = i}) <= TieNeed(S, fs[i])

\* res : the sequence of events as returned
AnswerOK(res, S, fs) ==
  /\ Cardinality(Range(res)) = Len(res)                           \* no duplicates
  /\ \A i \in 1..(Len(res) - 1) : res[i].ts >= res[i + 1].ts      \* newest first
  /\ AnswerSetOK(Range(res), S, fs)

=============================================================================
