------------------------------- MODULE PipeMC -------------------------------
(***************************************************************************)
(* Pipe with history variables: whatever interleaving of the four actions, *)
(* the received sequence is a prefix of the sent one in each direction and *)
(* equals it at every quiet point.                                         *)
(***************************************************************************)
EXTENDS Pipe, SequencesExt
CONSTANTS Msgs, MaxLen
VARIABLES p, sent, recvd, emitted, got
vars == <<p, sent, recvd, emitted, got>>
Init == p = PInit /\ sent = <<>> /\ recvd = <<>> /\ emitted = <<>> /\ got = <<>>
ACSend == \E m \in Msgs : Len(sent) < MaxLen /\ p' = CSend(p, m) /\ sent' = Append(sent, m) /\ UNCHANGED <<recvd, emitted, got>>
ADRecv == \E m \in Msgs : CanDRecv(p, m) /\ p' = DRecv(p) /\ recvd' = Append(recvd, m) /\ UNCHANGED <<sent, emitted, got>>
ADEmit == \E m \in Msgs : Len(emitted) < MaxLen /\ p' = DEmit(p, m) /\ emitted' = Append(emitted, m) /\ UNCHANGED <<sent, recvd, got>>
ACGot  == \E m \in Msgs : CanCGot(p, m) /\ p' = CGot(p) /\ got' = Append(got, m) /\ UNCHANGED <<sent, recvd, emitted>>
Next == ACSend \/ ADRecv \/ ADEmit \/ ACGot
Spec == Init /\ [][Next]_vars /\ WF_vars(ADRecv) /\ WF_vars(ACGot)
PrefixOK == IsPrefix(recvd, sent) /\ IsPrefix(got, emitted)
QuietOK == Quiet(p) => recvd = sent /\ got = emitted
InFlightOK == sent = recvd \o p.up /\ emitted = got \o p.down
\* sends are bounded and deliveries weakly fair: in the end nothing stays in flight
Drains == <>[]Quiet(p)
=============================================================================
