#!/usr/bin/env python3
"""try_seed.py <property> <mutant-dir> [extra check ids...]

Confirms a seeded change produced by a sub-agent and runs the checks against it.
 1. scratch worktree of /repo HEAD (outside /repo and /verif): apply patch, build, run the
    existing test suite (must pass), run the demonstration (must FAIL), undo the patch,
    run the demonstration again (must PASS);
 2. apply the patch to /repo, run bin/check for the property (and the extra ids), undo;
 3. on success, store everything under /verif/seeded/<property>-<name>/.
"""
import json, os, shutil, subprocess, sys, time

ENV = dict(os.environ, GOFLAGS="-mod=mod", GOPROXY="off", GOSUMDB="off", GOTOOLCHAIN="local")

def sh(cmd, cwd=None, timeout=1800):
    p = subprocess.run(cmd, shell=True, cwd=cwd, env=ENV, capture_output=True, text=True, timeout=timeout)
    return p.returncode, (p.stdout + p.stderr)

def main():
    prop, mdir = sys.argv[1], sys.argv[2].rstrip('/')
    extra = sys.argv[3:]
    name = os.path.basename(mdir)
    meta = json.load(open(os.path.join(mdir, 'meta.json')))
    patch = os.path.join(mdir, 'patch.diff')
    demo = os.path.join(mdir, 'demo_test.go')
    demo_dir = meta.get('demo_dir', '.').strip() or '.'
    wt = '/tmp/wt/eval-%s-%s' % (prop, name)
    sh('git -C /repo worktree remove --force %s' % wt)
    rc, out = sh('git -C /repo worktree add -q %s HEAD' % wt)
    result = {"property": prop, "name": name, "confirmed": False}
    cj = os.path.join(mdir, 'confirm.json')
    if os.path.exists(cj) and json.load(open(cj)).get("confirmed"):
        result = json.load(open(cj))
        sh('git -C /repo worktree remove --force %s' % wt)
        return phase2(result, prop, mdir, extra, meta, patch, demo)
    try:
        rc, out = sh('git apply %s' % patch, cwd=wt)
        if rc != 0:
            result["problem"] = "patch does not apply: " + out[-400:]
            return result
        rc, out = sh('go build ./... && go test -vet=off -count=1 ./...', cwd=wt)
        result["existing_tests_pass_with_change"] = rc == 0
        if rc != 0:
            result["problem"] = "existing tests fail with the change: " + out[-600:]
            return result
        target = os.path.join(wt, demo_dir, 'zz_seeded_demo_test.go')
        shutil.copy(demo, target)
        rc_with, out_with = sh('go test -vet=off -count=1 -run TestSeeded ./%s/' % demo_dir, cwd=wt, timeout=600)
        sh('git apply -R %s' % patch, cwd=wt)
        rc_without, out_without = sh('go test -vet=off -count=1 -run TestSeeded ./%s/' % demo_dir, cwd=wt, timeout=600)
        result["demo_fails_with_change"] = rc_with != 0
        result["demo_passes_without_change"] = rc_without == 0
        if rc_with == 0 or rc_without != 0:
            result["problem"] = "demonstration does not discriminate: with=%d without=%d\n%s\n%s" % (rc_with, rc_without, out_with[-400:], out_without[-400:])
            return result
        result["confirmed"] = True
    finally:
        sh('git -C /repo worktree remove --force %s' % wt)
        shutil.rmtree(wt, ignore_errors=True)
    if os.environ.get("CONFIRM_ONLY"):
        json.dump(result, open(cj, 'w'))
        return result
    return phase2(result, prop, mdir, extra, meta, patch, demo)

def phase2(result, prop, mdir, extra, meta, patch, demo):
    name = os.path.basename(mdir)
    # run the checks against the change
    rc, out = sh('git -C /repo status --porcelain')
    if out.strip():
        result["problem"] = "/repo is not clean"
        return result
    rc, out = sh('git -C /repo apply %s' % patch)
    checks = {}
    try:
        for cid in [prop] + extra:
            t0 = time.time()
            rc, out = sh('bin/check %s' % cid, cwd='/verif', timeout=3600)
            lines = [l for l in out.splitlines() if l.startswith('VIOLATION') or l.startswith('  signature') or l.startswith('HELD') or l.startswith('INCONCLUSIVE')]
            checks[cid] = {"exit": rc, "seconds": round(time.time() - t0, 1), "lines": lines[:6]}
    finally:
        sh('git -C /repo checkout -- .')
        sh('git -C /repo clean -fd')
    result["checks"] = checks
    result["caught_by"] = [c for c, v in checks.items() if v["exit"] == 1]
    # store
    dst = '/verif/seeded/%s-%s' % (prop, name)
    os.makedirs(dst, exist_ok=True)
    shutil.copy(patch, dst + '/patch.diff')
    shutil.copy(demo, dst + '/demo_test.go')
    meta.update({"breaks_property": prop, "confirmation": {k: result[k] for k in ("existing_tests_pass_with_change", "demo_fails_with_change", "demo_passes_without_change")},
                 "ran": "tools/try_seed.py %s %s %s" % (prop, mdir, ' '.join(extra)), "checks": checks, "caught_by": result["caught_by"]})
    json.dump(meta, open(dst + '/meta.json', 'w'), indent=1)
    return result

if __name__ == '__main__':
    r = main()
    print(json.dumps(r, indent=1)[:3000])
