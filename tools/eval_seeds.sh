#!/bin/sh
# evaluates every mutant under /tmp/wtout (or the ones given) one after the other
cd /verif
extra_for() {
  case "$1" in
    C03) echo "C16";; C04) echo "C05";; C05) echo "C04";; C16) echo "C03 C04 C05";; C17) echo "C18";; C09) echo "C08";; C08) echo "C09";; C06) echo "C14";; C14) echo "C06";; C19) echo "C13";; C13) echo "C19";; C01) echo "C12";; C15) echo "C04";; C12) echo "C10";; C11) echo "C12";; *) echo "";;
  esac
}
for d in ${@:-$(ls -d /tmp/wtout/C*/m*)}; do
  [ -f "$d/meta.json" ] || continue
  p=$(basename $(dirname $d))
  n=$(basename $d)
  [ -f "/verif/seeded/$p-$n/meta.json" ] && continue
  echo "=== $p $n"
  python3 tools/try_seed.py $p $d $(extra_for $p) 2>&1 | python3 -c "
import sys,json
t=sys.stdin.read()
try:
    r=json.loads(t)
    print('confirmed',r.get('confirmed'),'caught_by',r.get('caught_by'),'problem',(r.get('problem') or '')[:300])
    for c,v in (r.get('checks') or {}).items(): print('  ',c,'exit',v['exit'],v['seconds'],'s',' | '.join(v['lines'][:2])[:260])
except Exception as e:
    print('unparsable',t[-500:])
"
done
