#!/usr/bin/env python3
"""Regenerates /verif/MANIFEST.json from the table below (keeps it schema-valid)."""
import json

CHECKS = {
 "C01": ("model_checking", "Canon.tla enumerates content/tag strings over NIP-01 escape classes and tamper operators; TLC exports every case with the canonical form computed by the spec; each is concretised, really signed (BIP-340) and compared with Event.Serialize / Event.Verify; thorough tier covers every Unicode scalar value.", "SHA-256 and BIP-340 (btcec) are trusted library oracles; TLC; concretiser.", "TLA+ spec of the canonical form as case analysis, TLC-exported cases replayed on Serialize/Verify"),
 "C02": ("model_checking", "TLC evaluates Nostr!Matches over 504 events x 15,360 filters (slice in quick) and exports the verdict table, compared pair by pair with Match; every behaviour of the limit-counting matcher (MatcherMC) is replayed; random sessions validated against MatcherTrace.", "TLC and the concretiser are trusted; filters are decoded from JSON.", "TLA+ predicate + TLC-exported verdict table, trace validation"),
 "C03": ("model_checking", "Every recorded Find of the real EventCache is judged by TLC against AnswerOK of spec/Nostr.tla over the set the match-everything query lists; states come from the exhaustive StoreMC model (reached on the real cache by real histories) and from seeded random histories.", "Trusted: TLC, concretiser. Ties at a limit boundary are left open.", "TLA+ spec + TLC as query oracle (trace validation of recorded Find calls), states from exhaustive TLC model"),
 "C04": ("model_checking", "TLC checks the retention invariants and leave/flag action properties on spec/StoreMC.tla exhaustively and exports its complete transition relation; every (state, event) pair is replayed on the real EventCache from a really reached state, and seeded random histories are validated step by step against spec/StoreTrace.tla.", "Trusted: TLC, concretiser. Exhaustive only inside the 26-event universe and capacities 1..3 (4 thorough); random histories beyond.", "TLA+ spec + TLC exhaustive model checking, graph-guided replay of the exported relation, trace validation"),
 "C05": ("model_checking", "Same Store specification; deletion / isolation action properties checked by TLC, the exported relation replayed through CacheHandler messages, deletion-heavy two- and three-author histories validated against StoreTrace.", "Trusted: TLC, concretiser. Address references only to addressable events, no self-referencing deletion requests.", "TLA+ spec + TLC exhaustive model checking, graph-guided replay through the handler, trace validation"),
 "C06": ("model_checking", "SqlStore.tla (rows, id/address tombstones) model-checked by TLC (SqlMC); every exported transition replayed on real SQLite and probe queries judged by TLC (AnswerOK); random batch histories validated against SqlTrace with full listings and random filter lists; all seven fields compared.", "64-bit key collisions assumed away; d-less addressable events not generated; TLC, concretiser trusted.", "TLA+ spec + TLC model checking, graph-guided replay on real SQLite, trace validation"),
 "C07": ("model_checking", "RouterObs.tla states the real-time delivery rule (must / may / must-not by the order of EOSE, EVENT, OK, CLOSE as seen by the clients) as a monitor over observation histories; the mechanism model RouterMC (sessions, non-atomic Publish visiting connections one at a time, bounded queues, forwarder, stalled reader, End) is explored by TLC against the monitor; seeded concurrent runs of the real RouterHandler (3-5 connections, re-REQ, CLOSE, cancel, 1-2 slot buffers with a subscriber that stops reading) are recorded in one total order and validated by TLC prefix by prefix; publishers must be acknowledged within 2 s.", "Observations are ordered by one mutex-protected log (snd before offering, got after receiving); ended/stalled connections exempt from completeness; no-loss scenarios use buflen 1024.", "TLA+ monitor + mechanism model checked by TLC (simulation), trace validation of concurrent real executions"),
 "C08": ("model_checking", "MergeObs.tla is the property as a monitor over client/child observations; the code-shaped mechanism model MergeMC (state-then-broadcast, per-child hand-off, EOSE gate, IsSendable, reply-slot queues) is explored by TLC against it; seeded free-running scenarios of the real NewMergeHandler over 2-4 scripted children are recorded in one total order and validated by TLC prefix by prefix (StepOK) and at the drained end (QuiesceOK).", "Events between a child's EOSE and the merged EOSE may be dropped; races of CLOSE / re-REQ with in-flight deliveries are left open as the property does.", "TLA+ monitor + mechanism model checked by TLC (simulation), trace validation of concurrent real executions"),
 "C09": ("model_checking", "Same MergeObs / MergeMC / MergeTrace machinery, scenarios with pipelined EVENTs over few ids (repeats in flight) and COUNTs, children answering with random verdicts, reasons and counts: k-th OK follows k-th submission and all children's k-th verdicts, accepted iff all, rejected text starts with the lowest-index rejecting child's reason, COUNT = max, one reply per request at quiescence.", "Premise: each child answers each EVENT/COUNT exactly once in request order.", "TLA+ monitor + mechanism model checked by TLC (simulation), trace validation of concurrent real executions"),
 "C10": ("exploration", "Structured inputs are enumerated by TLC from Wire.tla (all client message shapes, single-point corruptions, server value classes); each text, byte-level mutations of it, generator-built values and hostile shapes are decoded as all 14 types and by ParseClientMsg under recover: no panic, success => filled, decode-encode-decode stable, values round-trip.", "'all byte strings' is sampled inside model-defined classes: model-based generation, not coverage-guided fuzzing; bare null not claimed.", "TLA+ grammar model as exhaustive case generator (TLC), replay on the real codec"),
 "C11": ("model_checking", "Wire.tla assigns every syntactic position of the 5 client message types a status ok/bad/open; TLC enumerates baselines, ok variants, whitespace placements and every single-point corruption (thorough: pairs) with the verdict; each case is rendered as JSON and judged by ParseClientMsg + ValidClientMsg; accepted messages are additionally checked for soundness.", "The rendering of abstract statuses to JSON text is trusted; positions the property does not claim are open.", "TLA+ decision model enumerated exhaustively by TLC, each case replayed on the real gate"),
 "C12": ("model_checking", "Gate.tla (reader/handler/writer processes over unbuffered channels) model-checked incl. liveness for all frame sequences up to 3 over 13 frame classes; every sequence plus long seeded sequences sent over real WebSocket connections to NewRelay(recordingHandler) with really signed events; recorded sessions validated by TLC against GateOK.", "Rate limit configured away; attribution of client frames to handler emissions by deep equality with the logged emission.", "TLA+ process model + TLC (safety and liveness), TLC-generated frame sequences replayed over real sockets, trace validation"),
 "C14": ("fault_enumeration", "SqlTx.tla models one batch at statement grain with a fault at every statement index; TLC checks Atomic / Refines / Idempotent and exports every (history, batch, failAt); the cases are executed on real SQLite through a fault-injecting database/sql driver, incl. retry, re-insertion, close/reopen of a file database, and validated against SqlTrace.", "SQLite's journal is trusted; a failing statement = driver error before execution; power-loss crash points not simulated.", "TLA+ statement-grain spec + TLC, fault injection at every TLC-enumerated statement index, trace validation"),
 "C16": ("model_checking", "Complete output sequences of pipelined random sessions on CacheHandler and SQLiteHandler are validated by TLC against HandlerTrace (reply protocol over Store / SqlStore with silent background insertion); dump/restore states judged against the original listing.", "COUNT values unconstrained; TLC, concretiser trusted.", "TLA+ trace specification of the reply protocol validated by TLC (depth-first), dump/restore via FindTrace"),
}

ORDER = ["C%02d" % i for i in range(1, 21)]
import os
built = [c for c in ORDER if c in CHECKS and os.environ.get("ONLY", "") in ("", c)]
reg = open('/verif/harness/internal/checks/registry.go').read()
checks = []
for c in ORDER:
    if c not in CHECKS or ('"%s"' % c) not in reg:
        continue
    cat, text, note, tech = CHECKS[c]
    checks.append({
        "property_id": c,
        "quick_cmd": "bin/check %s" % c,
        "thorough_cmd": "VERIF_TIER=thorough bin/check %s" % c,
        "evidence_file": "/verif/evidence/%s.json" % c,
        "engine": "vcheck",
        "level_claimed": {"category": cat, "text": text, "design_ref": "DESIGN.md §3 %s" % c},
        "level_note": note,
        "technique": tech,
    })
claimed = {c["property_id"] for c in checks}
NA = {}
na = [{"property_id": c, "reason": NA.get(c, "check not built yet (work in progress, see DESIGN.md §7 build order)")} for c in ORDER if c not in claimed]
hooks_commits = [l.split()[0] for l in os.popen("git -C /repo log --oneline --grep='^verif hooks'").read().splitlines()]
m = {
 "version": 1,
 "setup_cmd": "cd /verif/harness && export GOFLAGS=-mod=mod GOPROXY=off GOSUMDB=off GOTOOLCHAIN=local CGO_ENABLED=1 && cp /repo/go.sum go.sum && go build -tags verif -o /dev/null ./cmd/vcheck && go build -race -tags verif -o /dev/null ./cmd/vcheck",
 "hooks": {"guard": "verif", "enable": "go build -tags verif (harness module, replace github.com/high-moctane/mocrelay => /repo)",
           "baseline_off_cmd": "cd /repo && GOFLAGS=-mod=mod GOPROXY=off GOSUMDB=off GOTOOLCHAIN=local go test -vet=off -count=1 -timeout 25m ./...",
           "source_commits": hooks_commits, "add_only": True},
 "engines": [{"name": "vcheck", "path": "/verif/harness", "serves_properties": sorted(claimed),
              "kind_free_text": "TLA+ specifications in /verif/spec checked by TLC; the Go harness replays TLC-exported transition relations / behaviours on the real code and validates recorded real traces against TLA+ trace specifications with TLC"}],
 "checks": checks,
 "not_applicable": na,
 "notes": "See DESIGN.md. Exit codes: 0 held, 1 VIOLATION (real code only), 2 inconclusive. known-findings.json lists fixed / known defects.",
}
json.dump(m, open('/verif/MANIFEST.json', 'w'), indent=1)
print("claimed", sorted(claimed))
