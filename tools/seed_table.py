#!/usr/bin/env python3
"""prints the markdown table of seeded changes for DESIGN.md section 10"""
import json,glob,os
rows=[]
for d in sorted(glob.glob('/verif/seeded/*/')):
    if not os.path.exists(d+'meta.json'): continue
    m=json.load(open(d+'meta.json'))
    own=m['breaks_property']
    caught=m.get('caught_by',[])
    sig=''
    for c in ([own] if own in caught else caught[:1]):
        for l in m['checks'][c]['lines']:
            if 'signature' in l: sig=l.split('signature:',1)[1].strip()[:90]; break
    rows.append('| %s | %s | %s | %s | %s |' % (os.path.basename(d.rstrip('/')), m['summary'].replace('|','/').replace('\n',' ')[:170], m['needs'].replace('|','/').replace('\n',' ')[:150], ', '.join(caught) or 'not claimed (see above)', sig.replace('|','/')))
print('| seeded change | what was changed | what it needs to manifest | caught by | first signature |')
print('|---|---|---|---|---|')
print('\n'.join(rows))
