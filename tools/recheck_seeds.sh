#!/bin/sh
# re-runs the checks against every stored seeded change (after the checks changed)
# usage: tools/recheck_seeds.sh [seed dirs...]   -> /tmp/recheck.log style output on stdout
cd /verif
for d in ${@:-$(ls -d /verif/seeded/*/)}; do
  d=${d%/}
  [ -f "$d/patch.diff" ] || continue
  p=$(python3 -c "import json;print(json.load(open('$d/meta.json'))['breaks_property'])")
  sib=$(python3 -c "import json;m=json.load(open('$d/meta.json'));print(' '.join(c for c in m.get('checks',{}) if c!=m['breaks_property']))")
  [ -z "$(git -C /repo status --porcelain)" ] || { echo "/repo not clean"; exit 2; }
  git -C /repo apply "$d/patch.diff" || { echo "$d: patch does not apply"; continue; }
  res=""
  for c in $p $sib; do
    out=$(bin/check $c 2>&1); rc=$?
    res="$res $c=$rc"
    python3 - "$d" "$c" "$rc" "$(echo "$out" | grep -E '^VIOLATION|^  signature|^HELD|^INCONCLUSIVE' | head -4)" <<'PY'
import json,sys
d,c,rc,lines=sys.argv[1],sys.argv[2],int(sys.argv[3]),sys.argv[4].splitlines()
m=json.load(open(d+'/meta.json'))
m.setdefault('checks',{})[c]={"exit":rc,"lines":lines,"seconds":m.get('checks',{}).get(c,{}).get('seconds')}
m['caught_by']=[k for k,v in m['checks'].items() if v['exit']==1]
json.dump(m,open(d+'/meta.json','w'),indent=1)
PY
    [ "$c" = "$p" ] && [ $rc -eq 1 ] && break
  done
  git -C /repo checkout -- . ; git -C /repo clean -fdq
  echo "$(basename $d):$res"
done
