#!/bin/sh
# tools/neutral.sh [dirs]: applies each behaviour-preserving change under seeded/neutral to /repo,
# runs the check of its property and of the sibling properties, undoes it. Every line must be HELD.
cd /verif
sib() { case "$1" in C03) echo C16;; C04) echo C05;; C05) echo C04;; C16) echo C03;; C17) echo C18;; C09) echo C08;; C08) echo C09;; C06) echo "C14 C16";; C14) echo C06;; C19) echo C13;; C13) echo C19;; C01) echo C12;; C10) echo C11;; C11) echo "C10 C12";; C12) echo C13;; C07) echo C13;; C02) echo C07;; C15) echo C03;; C18) echo C17;; esac; }
for d in ${@:-$(ls -d /verif/seeded/neutral/*/)}; do
  d=${d%/}; [ -f "$d/patch.diff" ] || continue
  p=$(basename $d | cut -d- -f1)
  [ -z "$(git -C /repo status --porcelain)" ] || { echo "/repo not clean"; exit 2; }
  git -C /repo apply "$d/patch.diff" 2>/dev/null || { echo "$(basename $d): patch does not apply"; continue; }
  res=""
  for c in $p $(sib $p); do bin/check $c >/dev/null 2>&1; res="$res $c=$?"; done
  git -C /repo checkout -- . ; git -C /repo clean -fdq
  echo "$(basename $d):$res"
done
